(* Proofs/CreateCliProofs.v — create through the command lines (C19): what is written, and where.
   Sources are optional: the statements include the empty source list (a blank archive). *)
From Coq Require Import ZArith List Bool Lia String.
Require Import PyBase CliTypes GenCli GenDisk Tape Disk Cli ThomsonDos DiskDefs DiskGeoProofs DLoopArgs DLoopInv DiskLoopProofs TapeProofs CliProofs.
Import ListNotations.
Open Scope Z_scope.

Lemma act_create_create : zeqb_list (str "create"%string) (str "create"%string) = true.
Proof. vm_compute. reflexivity. Qed.

(* a created disk image is written once, at the archive path, with the length of its flavour *)
Lemma disk_create_saves : forall (is_fd v : bool) (fs : fsmap) (arch : list Z) (srcs : list (list Z)),
  sources_ok fs -> srcs_printable srcs ->
  d_status (disk_create is_fd v fs arch srcs) = 0 /\ d_crash (disk_create is_fd v fs arch srcs) = None /\
  exists raw, d_effects (disk_create is_fd v fs arch srcs) = [WriteFile arch raw] /\
              zlen raw = if is_fd then 1310720 else 2621440.
Proof.
  intros is_fd v fs arch srcs Hfs Hsrcs. unfold disk_create. rewrite load_blank.
  assert (Hso : start_ok true (repeat blank_side 4)).
  { split; [reflexivity|]. apply Forall_forall. intros sd Hsd. apply repeat_spec in Hsd. subst sd.
    exact blank_side_geometry. }
  destruct (perform_main is_fd v true fs arch _ srcs Hso Hfs Hsrcs) as (st & text & Heq & Hinv).
  rewrite Heq. cbn [d_status d_crash d_effects].
  split; [reflexivity|]. split; [reflexivity|]. eexists. split; [reflexivity|].
  pose proof (inv_len _ _ _ _ _ _ Hinv) as Hlen.
  pose proof (inv_tr _ _ _ _ _ _ Hinv) as Htr.
  destruct (save_flavours (i_img st) (tool_readable_geo_image _ Htr)) as (_ & _ & Hfd & Hsd).
  destruct is_fd; [rewrite Hfd|rewrite Hsd]; rewrite Hlen; reflexivity.
Qed.

(* TOP (C19): create through the command line.  moto_tar: either the archive is written once, at the
   path given, 21504 bytes long, with status 0 - or nothing is written and the status is not 0.
   moto_sdar / moto_fdar (right extension): the archive is always written once, at the path given,
   with the length of its flavour, status 0.  No hypothesis on the source list: it may be empty.
   The path is the one given, whatever --into says: that is finding F4 (known_findings.json). *)
Theorem create_cli_placement : forall (argv : list (list Z)) (fs : fsmap) (is_fd : bool) vs archive sources,
  value_of (str "action"%string) vs = Some (str "create"%string) ->
  (parse tar_cli argv = POk vs (archive :: sources) ->
     (cli_status (tar_main argv fs) = 0 /\
      exists raw, cli_effects (tar_main argv fs) = [WriteFile archive raw] /\ zlen raw = 21504) \/
     (cli_status (tar_main argv fs) <> 0 /\ cli_effects (tar_main argv fs) = [])) /\
  (parse disk_cli argv = POk vs (archive :: sources) ->
     (exists e, extension_of archive = Some e /\
                zeqb_list (map lower_char e) (if is_fd then str "fd"%string else str "sd"%string) = true) ->
     sources_ok fs -> srcs_printable sources ->
     cli_status (disk_main is_fd argv fs) = 0 /\
     exists raw, cli_effects (disk_main is_fd argv fs) = [WriteFile archive raw] /\
                 zlen raw = if is_fd then 1310720 else 2621440).
Proof.
  intros argv fs is_fd vs archive sources Ha. split.
  - intros Hp. unfold tar_main. rewrite Hp, Ha, act_create_create. cbn [cli_status cli_effects].
    exact (tape_create_all_or_nothing fs sources archive (is_true (value_of (str "verbose"%string) vs))).
  - intros Hp (e & He & Hx) Hfs Hsrcs. unfold disk_main. rewrite Hp, Ha, He, Hx, act_create_create.
    cbn [negb cli_status cli_effects].
    destruct (disk_create_saves is_fd (is_true (value_of (str "verbose"%string) vs)) fs archive sources Hfs Hsrcs)
      as (Hs & _ & raw & Heff & Hlen).
    split; [exact Hs|]. exists raw. split; [exact Heff|exact Hlen].
Qed.

(* the hypotheses are met by a command line without any source file *)
Example create_cli_blank_disk :
  parse disk_cli [str "--create"%string; str "blank.sd"%string] = POk [(str "action"%string, str "create"%string)] [str "blank.sd"%string]
  /\ extension_of (str "blank.sd"%string) = Some (str "sd"%string).
Proof. vm_compute. split; reflexivity. Qed.
