(* Proofs/DWriteCat.v — the catalogue side of writeFile: chain walks never fail, find_slot, new_record. *)
From Coq Require Import ZArith List Bool Lia ZifyBool.
Require Import PyBase GenDisk DiskFacts DiskFactsWrite Disk ThomsonDos DiskDefs DWriteList DWriteLens DWriteSpec.
Import ListNotations.
Open Scope Z_scope.
Ltac Zify.zify_post_hook ::= Z.to_euclidean_division_equations.

(* ---------- the chain walk of the tool always ends ---------- *)
Lemma wc_status_of_some bat st x : status_of bat st = Some x -> 0 <= st < Z.of_nat (length bat).
Proof.
  unfold status_of. destruct (st <? 0) eqn:E; [discriminate|]. intros H.
  assert (Hn : nth_error bat (Z.to_nat st) <> None) by congruence. apply nth_error_Some in Hn. lia.
Qed.

Lemma wc_walk_some bat : length bat = 160%nat -> forall fuel st blocks,
  NoDup blocks -> (forall x, In x blocks -> 0 <= x < 160) -> (161 <= length blocks + fuel)%nat ->
  walk fuel bat st blocks <> None.
Proof.
  intros Hl. induction fuel as [|fuel IH]; intros st blocks Hnd Hr Hf.
  - pose proof (wl_pigeon blocks 160 Hnd ltac:(intros x Hx; specialize (Hr x Hx); lia)). lia.
  - cbn [walk]. destruct (ba_is_last st); [discriminate|].
    destruct (status_of bat st) as [st'|] eqn:Es; [|discriminate].
    destruct (ba_is_free st' || ba_is_reserved st' || existsb (Z.eqb st) blocks) eqn:Ec; [discriminate|].
    apply orb_false_iff in Ec. destruct Ec as (_ & Ec). apply wl_existsb_eqb_false in Ec.
    apply wc_status_of_some in Es. apply IH.
    + apply wl_NoDup_app. split; [exact Hnd|]. split; [constructor; [intros []|constructor]|].
      intros x Hx [<-|[]]. contradiction.
    + intros x Hx. apply in_app_or in Hx. destruct Hx as [Hx|[<-|[]]]; [now apply Hr|lia].
    + rewrite app_length. cbn [length]. lia.
Qed.

Lemma wc_chain_of_ok bat first : length bat = 160%nat -> 0 <= first < 160 -> exists bs, chain_of bat first = Ok bs.
Proof.
  intros Hl Hf. unfold chain_of.
  assert (Es : status_of bat first = Some (nth (Z.to_nat first) bat 0)).
  { unfold status_of. destruct (first <? 0) eqn:E; [lia|]. apply nth_error_nth'. lia. }
  rewrite Es. destruct (ba_is_free _ || ba_is_reserved _); [eexists; reflexivity|].
  destruct (walk walk_fuel bat (nth (Z.to_nat first) bat 0) [first]) as [bs|] eqn:Ew; [eexists; reflexivity|].
  exfalso. revert Ew. apply wc_walk_some; [exact Hl| | |].
  - constructor; [intros []|constructor].
  - intros x [<-|[]]. exact Hf.
  - change walk_fuel with 162%nat. cbn [length]. lia.
Qed.

(* ---------- decoding one slot ---------- *)
Lemma wc_entry_status data bat : length data = 32%nat -> length bat = 160%nat ->
  (nth 0 data 255 = 255 \/ 0 <= e_first data < 160) ->
  exists en, entry_of_bytes data bat = Ok en /\
             ((ce_status en =? entry_NEVER_USED) || (ce_status en =? entry_DELETED)) = negb (e_live data).
Proof.
  intros Hd Hb Hs. unfold entry_of_bytes, e_live. cbv zeta.
  assert (E0 : znth0 0 data = nth 0 data 255) by (unfold znth0; apply nth_indep; cbn; lia).
  assert (E13 : znth0 rec_first_index data = e_first data) by (unfold znth0, e_first; apply nth_indep; cbn; lia).
  rewrite E0, E13, gw_entry_status_of. set (b := nth 0 data 255) in *.
  change entry_NEVER_USED with 0. change entry_DELETED with 2.
  destruct (b =? 255) eqn:E255.
  - cbn [Z.eqb]. eexists. split; [reflexivity|]. reflexivity.
  - destruct (wc_chain_of_ok bat (e_first data) Hb) as (bs & Ebs); [destruct Hs as [Hs|Hs]; [lia|exact Hs]|].
    rewrite Ebs. destruct (b =? 0) eqn:E00.
    + cbn [Z.eqb bind]. eexists. split; [reflexivity|]. reflexivity.
    + cbn [Z.eqb bind]. eexists. split; [reflexivity|]. reflexivity.
Qed.

Lemma wc_find_slot sd bat : geom sd -> length bat = 160%nat -> forall slots,
  (forall sl, In sl slots -> In sl all_slots) ->
  (forall sl, In sl slots -> nth 0 (entry_at sd sl) 255 = 255 \/ 0 <= e_first (entry_at sd sl) < 160) ->
  find_slot sd bat slots = Ok (find (fun sl => negb (e_live (entry_at sd sl))) slots).
Proof.
  intros Hg Hb. induction slots as [|(s, off) r IH]; intros Hin Hok; [reflexivity|].
  cbn [find_slot find]. rewrite wn_slot_data.
  destruct (wc_entry_status (entry_at sd (s, off)) bat) as (en & -> & ->).
  - apply wn_entry_at_length; [exact Hg|]. apply Hin. now left.
  - exact Hb.
  - apply Hok. now left.
  - destruct (negb (e_live (entry_at sd (s, off)))); [reflexivity|].
    apply IH; intros sl Hsl; [apply Hin|apply Hok]; now right.
Qed.

Lemma wc_slots_in_table sd : slots_in_table sd = true ->
  forall sl, In sl all_slots -> nth 0 (entry_at sd sl) 255 = 255 \/ 0 <= e_first (entry_at sd sl) < 160.
Proof.
  unfold slots_in_table. rewrite wn_cat_entries_slots, forallb_forall. intros H sl Hsl.
  specialize (H (entry_at sd sl) (in_map _ _ _ Hsl)). lia.
Qed.

(* ---------- the record ---------- *)
Lemma wc_upper_printable c : printable_char c = true -> printable_char (upper_char c) = true.
Proof. unfold printable_char, upper_char. destruct ((97 <=? c) && (c <=? 122)) eqn:E; lia. Qed.
Lemma wc_upper_ascii_printable s : forallb printable_char s = true -> forallb printable_char (upper_ascii s) = true.
Proof.
  unfold upper_ascii. induction s as [|c s IH]; cbn [map forallb]; [reflexivity|].
  intros H. apply andb_prop in H. destruct H as (H1 & H2). now rewrite wc_upper_printable, IH.
Qed.

Lemma wc_firstn_repeat {A} (x : A) k n : (k <= n)%nat -> firstn k (repeat x n) = repeat x k.
Proof.
  revert n; induction k as [|k IH]; intros n H; [reflexivity|].
  destruct n as [|n]; [lia|]. cbn [repeat firstn]. f_equal. apply IH. lia.
Qed.

Lemma wc_pad_to_length n t : length (pad_to n t) = n.
Proof. unfold pad_to. rewrite firstn_length, app_length, repeat_length. lia. Qed.
Lemma wc_pad_to_printable n t : forallb printable_char t = true -> forallb printable_char (pad_to n t) = true.
Proof.
  intros H. unfold pad_to. apply wl_forallb_firstn. rewrite forallb_app, H. now apply wl_forallb_repeat.
Qed.

Lemma wc_bytes_from_str t sz : 0 <= sz -> forallb printable_char t = true ->
  bytes_from_str t sz = Ok (pad_to (Z.to_nat sz) t).
Proof.
  intros Hsz Hp. unfold bytes_from_str.
  assert (Ha : forallb (fun c => (0 <=? c) && (c <? 128)) t = true).
  { revert Hp. apply wl_forallb_impl. intros x _. unfold printable_char. lia. }
  rewrite Ha. f_equal. unfold pad_to, zlen. change padding_char with 32.
  destruct (sz <=? Z.of_nat (length t)) eqn:E.
  - rewrite firstn_app. replace (Z.to_nat sz - length t)%nat with 0%nat by lia.
    now rewrite firstn_O, app_nil_r.
  - rewrite firstn_app, firstn_all2 by lia. f_equal.
    rewrite wc_firstn_repeat by lia. f_equal. lia.
Qed.

Lemma wc_sanitize_id data : forallb printable_char (firstn 11 data) = true -> sanitize data = data.
Proof.
  intros H. unfold sanitize. change (Z.to_nat rec_sanitized_count) with 11%nat.
  rewrite <- (firstn_skipn 11 data) at 3. f_equal.
  set (l := firstn 11 data) in *. clearbody l. induction l as [|c l IH]; [reflexivity|].
  cbn [map forallb] in *. apply andb_prop in H. destruct H as (H1 & H2). rewrite IH by exact H2. f_equal.
  rewrite gw_rec_is_invalid_char. unfold printable_char in H1. destruct (c <? 32) eqn:E; [lia|reflexivity].
Qed.

Definition record_bytes (n8 x3 : list Z) (kind flag first last : Z) : list Z :=
  n8 ++ x3 ++ [kind; flag; first; 0; last] ++ repeat 255 16.

Lemma wc_new_record name ext kind dtype first last :
  forallb printable_char name = true -> forallb printable_char ext = true -> 0 <= last <= 255 ->
  new_record name ext kind dtype first last =
  Ok (record_bytes (pad_to 8 (upper_ascii name)) (pad_to 3 (upper_ascii ext)) kind (data_to_byte dtype) first last).
Proof.
  intros Hn He Hl. unfold new_record.
  rewrite (wc_bytes_from_str (upper_ascii name)) by (try apply wc_upper_ascii_printable; try exact Hn; cbv; discriminate).
  rewrite (wc_bytes_from_str (upper_ascii ext)) by (try apply wc_upper_ascii_printable; try exact He; cbv; discriminate).
  cbn [bind]. change (Z.to_nat size_of_entry_name) with 8%nat. change (Z.to_nat size_of_entry_extension) with 3%nat.
  destruct (gw_rec_bytes kind (data_to_byte dtype) first last Hl) as (B1 & B2 & B3 & B4 & B5).
  rewrite B1, B2, B3, B4, B5. f_equal. unfold record_bytes. rewrite gw_padding_of_record.
  set (n8 := pad_to 8 (upper_ascii name)). set (x3 := pad_to 3 (upper_ascii ext)).
  rewrite wc_sanitize_id.
  - now rewrite <- !app_assoc.
  - assert (L8 : length n8 = 8%nat) by apply wc_pad_to_length.
    assert (L3 : length x3 = 3%nat) by apply wc_pad_to_length.
    rewrite app_assoc, firstn_app. rewrite firstn_all2 by (rewrite app_length; lia).
    replace (11 - length (n8 ++ x3))%nat with 0%nat by (rewrite app_length; lia).
    rewrite firstn_O, app_nil_r, forallb_app.
    unfold n8, x3. now rewrite !wc_pad_to_printable by (now apply wc_upper_ascii_printable).
Qed.

Lemma wc_record_views n8 x3 kind flag first last : length n8 = 8%nat -> length x3 = 3%nat ->
  let r := record_bytes n8 x3 kind flag first last in
  e_name r = n8 /\ e_ext r = x3 /\ e_kind r = kind /\ e_flag r = flag /\ e_first r = first /\
  e_lastbytes r = last /\ skipn 16 r = repeat 255 16 /\ firstn 11 r = n8 ++ x3 /\
  nth 0 r 255 = nth 0 n8 255 /\ length r = 32%nat.
Proof.
  intros H8 H3.
  destruct n8 as [|a0 [|a1 [|a2 [|a3 [|a4 [|a5 [|a6 [|a7 [|? ?]]]]]]]]]; try discriminate.
  destruct x3 as [|b0 [|b1 [|b2 [|? ?]]]]; try discriminate.
  cbv zeta. unfold record_bytes, e_name, e_ext, e_kind, e_flag, e_first, e_lastbytes.
  repeat split.
Qed.
