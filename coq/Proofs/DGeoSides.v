(* Proofs/DGeoSides.v — load_side / load_image / save_image against the list lemmas. *)
From Coq Require Import ZArith List Bool Lia ZifyBool.
Require Import PyBase GenDisk DiskFacts DiskFactsGeo Disk ThomsonDos DiskDefs DGeoLists.
Import ListNotations.
Open Scope Z_scope.
Ltac Zify.zify_post_hook ::= Z.to_euclidean_division_equations.

(* ---------- the few numerals, computed once ---------- *)
Lemma sps_eq : sectors_per_side = 1280%nat.
Proof. reflexivity. Qed.
Lemma nat_payload : Z.to_nat size_of_payload = 256%nat.
Proof. reflexivity. Qed.
Lemma nat_pad : Z.to_nat (size_of_sector false - size_of_payload) = 256%nat.
Proof. reflexivity. Qed.
Definition slot (b : bool) : nat := if b then 256%nat else 512%nat.
Lemma nat_sector b : Z.to_nat (size_of_sector b) = slot b.
Proof. destruct b; reflexivity. Qed.
Lemma nat_side b : Z.to_nat (size_of_side b) = (slot b * 1280)%nat.
Proof. destruct b; unfold slot; [rewrite size_of_side_fd|rewrite size_of_side_sd]; lia. Qed.
Lemma slot_pos b : (0 < slot b)%nat.
Proof. destruct b; unfold slot; lia. Qed.
Lemma slot_ge b : (256 <= slot b)%nat.
Proof. destruct b; unfold slot; lia. Qed.
Lemma z_side b : size_of_side b = Z.of_nat (slot b) * 1280.
Proof. destruct b; unfold slot; [rewrite size_of_side_fd|rewrite size_of_side_sd]; lia. Qed.

(* ---------- sectors ---------- *)
Lemma save_sector_length b s : length s = 256%nat -> length (save_sector b s) = slot b.
Proof.
  intros H. destruct b; unfold save_sector, slot; [exact H|].
  rewrite app_length, repeat_length, nat_pad, H. reflexivity.
Qed.

Lemma firstn_save_sector b s : length s = 256%nat -> firstn 256 (save_sector b s) = s.
Proof.
  intros H. destruct b; unfold save_sector.
  - rewrite <- H. apply firstn_all.
  - apply g_firstn_exact. symmetry; exact H.
Qed.

Lemma save_side_length b sd : geo sd -> length (flat_map (save_sector b) sd) = (slot b * 1280)%nat.
Proof.
  intros [Hl Hs]. rewrite (g_flat_map_length_const (save_sector b) (slot b)).
  - rewrite Hl. apply Nat.mul_comm.
  - eapply g_Forall_impl2; [|exact Hs]. intros s. apply save_sector_length.
Qed.

(* ---------- one side ---------- *)
Lemma load_side_is b raw : load_side b raw = map (firstn 256) (chunks (slot b) 1280 raw).
Proof. unfold load_side. now rewrite nat_payload, nat_sector, sps_eq. Qed.

Lemma load_save_side b sd rest : geo sd -> load_side b (flat_map (save_sector b) sd ++ rest) = sd.
Proof.
  intros [Hl Hs]. rewrite load_side_is. rewrite <- Hl.
  rewrite (chunks_flat_map (save_sector b) (slot b)).
  - rewrite map_map. rewrite <- (map_id sd) at 2. apply g_map_ext_Forall.
    eapply g_Forall_impl2; [|exact Hs]. intros s. apply firstn_save_sector.
  - eapply g_Forall_impl2; [|exact Hs]. intros s. apply save_sector_length.
Qed.

Lemma geo_load_side b raw : length raw = (slot b * 1280)%nat -> geo (load_side b raw).
Proof.
  intros H. rewrite load_side_is. split.
  - now rewrite map_length, chunks_length.
  - apply g_Forall_map. eapply g_Forall_impl2; [|apply (chunks_all_length (slot b) 1280 raw); lia].
    intros c Hc. cbv beta in Hc. rewrite firstn_length, Hc. pose proof (slot_ge b). lia.
Qed.

(* what saving a loaded side gives, per flavour: no hypothesis on the raw bytes *)
Lemma save_load_side_fd_fd raw : flat_map (save_sector true) (load_side true raw) = firstn (256 * 1280) raw.
Proof.
  rewrite load_side_is. unfold slot. rewrite map_firstn_chunks.
  rewrite <- flat_chunks. apply g_flat_map_ext_Forall. apply Forall_forall. reflexivity.
Qed.
Lemma save_load_side_sd b raw :
  flat_map (save_sector b) (load_side false raw) =
  flat_map (fun s => save_sector b (firstn 256 s)) (chunks 512 1280 raw).
Proof. rewrite load_side_is. unfold slot. apply g_flat_map_map. Qed.

(* ---------- images ---------- *)
Lemma load_image_ok b raw n : raw <> [] -> zlen raw = n * size_of_side b ->
  (if b then n = 1 \/ n = 2 \/ n = 4 else n = 4) ->
  load_image b raw = Ok (map (load_side b) (chunks (slot b * 1280) (Z.to_nat n) raw)).
Proof.
  intros Hne Hlen Hn. destruct raw as [|z r]; [contradiction|].
  unfold load_image. set (raw := z :: r) in *. cbv zeta.
  rewrite load_number_of_sides_is, Hlen.
  assert (Hq : Z.min (n * size_of_side b / size_of_side b) 4 = n).
  { destruct b; [rewrite size_of_side_fd|rewrite size_of_side_sd]; lia. }
  rewrite Hq. rewrite load_reject_fd_is, load_reject_sd_is, load_reject_partial_is.
  replace ((n <? 4) && (n * size_of_side b <? n * size_of_side b)) with false by lia.
  rewrite nat_side.
  destruct b.
  - replace ((n =? 0) || (n =? 3)) with false by lia. reflexivity.
  - replace (n <? 4) with false by lia. reflexivity.
Qed.

Lemma save_image_is b img : save_image b img = flat_map (fun sd => flat_map (save_sector b) sd) img.
Proof. reflexivity. Qed.

Lemma save_image_length b img : geo_image img ->
  length (save_image b img) = (length img * (slot b * 1280))%nat.
Proof.
  intros H. rewrite save_image_is.
  apply (g_flat_map_length_const (fun sd => flat_map (save_sector b) sd)).
  eapply g_Forall_impl2; [|exact H]. intros sd. apply save_side_length.
Qed.

Lemma chunks_save_image b img : geo_image img ->
  map (load_side b) (chunks (slot b * 1280) (length img) (save_image b img)) = img.
Proof.
  intros H. rewrite save_image_is.
  rewrite <- (app_nil_r (flat_map _ img)).
  rewrite (chunks_flat_map (fun sd => flat_map (save_sector b) sd) (slot b * 1280)).
  - rewrite map_map. rewrite <- (map_id img) at 2. apply g_map_ext_Forall.
    eapply g_Forall_impl2; [|exact H]. intros sd Hsd. cbv beta.
    rewrite <- (app_nil_r (flat_map _ sd)). now apply load_save_side.
  - eapply g_Forall_impl2; [|exact H]. intros sd. apply save_side_length.
Qed.

Lemma geo_loaded b k raw : (slot b * 1280 * k <= length raw)%nat ->
  geo_image (map (load_side b) (chunks (slot b * 1280) k raw)).
Proof.
  intros H. apply g_Forall_map.
  eapply g_Forall_impl2; [|apply (chunks_all_length (slot b * 1280) k raw); exact H].
  intros c. apply geo_load_side.
Qed.
