(* Proofs/TapeLemmasR.v — the read side: next_block on a tape that follows Spec/K7.v, and the
   extractor's loop over the blocks of well-formed files. *)
From Coq Require Import ZArith List Bool Lia ZifyBool.
Require Import PyBase GenTape TapeFacts Tape K7 PyFacts TapeLemmas1 TapeLemmas2 TapeLemmasW TapeLemmasC.
Import ListNotations.
Open Scope Z_scope.
Ltac Zify.zify_post_hook ::= Z.to_euclidean_division_equations.

(* ---------- finding the read marker ---------- *)
Lemma find_run X : forall n off, (3 <= n)%nat ->
  find_from marker5 (repeat 1 n ++ 60 :: 90 :: X) off = Some (off + n - 3)%nat.
Proof.
  induction n as [|n IH]; intros off Hn; [lia|].
  destruct n as [|[|[|m]]]; [lia|lia| |].
  - cbn [repeat app find_from].
    change (starts_with marker5 (1 :: 1 :: 1 :: 60 :: 90 :: X)) with true. cbv iota. f_equal. lia.
  - change (repeat 1 (S (S (S (S m)))) ++ 60 :: 90 :: X)
      with (1 :: (repeat 1 (S (S (S m))) ++ 60 :: 90 :: X)).
    cbn [find_from].
    change (starts_with marker5 (1 :: repeat 1 (S (S (S m))) ++ 60 :: 90 :: X)) with false. cbv iota.
    rewrite IH by lia. f_equal. lia.
Qed.

Lemma find_gap X n : (3 <= n)%nat -> forall gap off, contains marker5 gap = false ->
  find_from marker5 (gap ++ repeat 1 n ++ 60 :: 90 :: X) off = Some (off + length gap + n - 3)%nat.
Proof.
  intros Hn. induction gap as [|g gap IH]; intros off Hc.
  - cbn [app length]. rewrite find_run by exact Hn. f_equal. lia.
  - cbn [contains] in Hc. apply orb_false_elim in Hc. destruct Hc as [Hs Hc].
    cbn [app find_from].
    assert (Hsw : starts_with marker5 (g :: gap ++ repeat 1 n ++ 60 :: 90 :: X) = false).
    { destruct n as [|[|[|m]]]; try lia. cbn [repeat].
      destruct gap as [|a [|b [|c [|d gap]]]]; cbn [app starts_with marker5] in *; lia. }
    rewrite Hsw, IH by exact Hc. f_equal. cbn [length]. lia.
Qed.

Lemma find_none : forall gap off, contains marker5 gap = false -> find_from marker5 gap off = None.
Proof.
  induction gap as [|g gap IH]; intros off Hc; [reflexivity|].
  cbn [contains] in Hc. apply orb_false_elim in Hc. destruct Hc as [Hs Hc].
  cbn [find_from]. rewrite Hs. now apply IH.
Qed.

(* ---------- one block ---------- *)
Lemma next_block_K7 pre gap n ty p rest :
  contains marker5 gap = false -> (3 <= n)%nat -> zlen p <= 254 ->
  forall raw, raw = pre ++ gap ++ repeat 1 n ++ k7_marker ++ k7_body ty p ++ rest ->
  next_block (mkTape raw (zlen pre) (zlen raw)) =
  (Some (k7_body ty p),
   mkTape raw (zlen (pre ++ gap ++ repeat 1 n ++ k7_marker ++ k7_body ty p)) (zlen raw)).
Proof.
  intros Hc Hn Hl raw Hraw. pose proof (zlen_nonneg p) as Hp.
  set (P := pre ++ gap ++ repeat 1 n ++ k7_marker).
  set (lb := (zlen p + 2) mod 256).
  assert (HP : zlen P = zlen pre + zlen gap + Z.of_nat n + 2).
  { unfold P. rewrite !zlen_app, zlen_repeat. change (zlen k7_marker) with 2. lia. }
  assert (Hraw1 : raw = P ++ k7_body ty p ++ rest).
  { rewrite Hraw. unfold P. now rewrite <- !app_assoc. }
  assert (Hraw2 : raw = (P ++ [ty]) ++ lb :: (p ++ ck_of p :: rest)).
  { rewrite Hraw1. unfold k7_body. fold lb. rewrite <- !app_assoc. reflexivity. }
  assert (Hlen : zlen raw = zlen P + zlen p + 3 + zlen rest).
  { rewrite Hraw1, !zlen_app, zlen_k7_body. lia. }
  unfold next_block. cbn [t_raw t_pos t_max].
  assert (Hfind : find_sub sync_read raw (Z.to_nat (zlen pre)) =
                  Some (length pre + length gap + n - 3)%nat).
  { unfold find_sub. rewrite to_nat_zlen.
    assert (Hle : Nat.leb (length pre) (length raw) = true).
    { apply Nat.leb_le. rewrite Hraw, app_length. lia. }
    rewrite Hle, Hraw, skipn_exact by reflexivity.
    change sync_read with marker5.
    change (k7_marker ++ k7_body ty p ++ rest) with (60 :: 90 :: (k7_body ty p ++ rest)).
    apply find_gap; assumption. }
  rewrite Hfind. rewrite nb_after_sync_is, nb_bound_test_is, nb_len_index_is.
  replace (Z.of_nat (length pre + length gap + n - 3) + 5) with (zlen P) by (rewrite HP; unfold zlen; lia).
  assert (Hb : (zlen P + 2 <=? zlen raw) = true) by (pose proof (zlen_nonneg rest); lia).
  rewrite Hb.
  assert (Hz : znth (zlen P + 1) raw = Some lb).
  { rewrite Hraw2. apply znth_mid. rewrite zlen_app. reflexivity. }
  rewrite Hz, nb_block_end_is.
  assert (He : (if 0 <? lb then zlen P + lb + 1 else zlen P + 257) = zlen P + zlen (k7_body ty p)).
  { rewrite zlen_k7_body. unfold lb. destruct (0 <? (zlen p + 2) mod 256) eqn:E; lia. }
  rewrite He. f_equal.
  - f_equal. rewrite Hraw1. apply zslice_mid; reflexivity.
  - f_equal. unfold P. rewrite <- zlen_app. now rewrite <- !app_assoc.
Qed.

Definition st (pre X : list Z) : tape := mkTape (pre ++ X) (zlen pre) (zlen (pre ++ X)).

Lemma next_block_cons pre X ty p bs : K7_blocks X ((ty, p) :: bs) ->
  exists pre' X', K7_blocks X' bs /\ pre' ++ X' = pre ++ X /\
                  next_block (st pre X) = (Some (k7_body ty p), st pre' X').
Proof.
  intros H. inversion H as [|gap n ty' p' rest bs' Hc Hn Hl Hb Ht Hr]; subst.
  exists (pre ++ gap ++ repeat 1 n ++ k7_marker ++ k7_body ty p), rest.
  split; [exact Hr|].
  assert (Heq : (pre ++ gap ++ repeat 1 n ++ k7_marker ++ k7_body ty p) ++ rest =
                pre ++ gap ++ repeat 1 n ++ k7_marker ++ k7_body ty p ++ rest) by (now rewrite <- !app_assoc).
  split; [exact Heq|].
  unfold st. rewrite Heq. apply (next_block_K7 pre gap n ty p rest); try assumption. reflexivity.
Qed.

Lemma next_block_nil pre X : K7_blocks X [] -> exists t', next_block (st pre X) = (None, t').
Proof.
  intros H. inversion H as [gap Hc|]; subst. unfold next_block, st. cbn [t_raw t_pos t_max].
  unfold find_sub. rewrite to_nat_zlen.
  assert (Hle : Nat.leb (length pre) (length (pre ++ X)) = true).
  { apply Nat.leb_le. rewrite app_length. lia. }
  rewrite Hle, skipn_exact by reflexivity. change sync_read with marker5.
  rewrite find_none by exact Hc. eexists; reflexivity.
Qed.

Lemma K7_blocks_length X bs : K7_blocks X bs -> (length bs <= length X)%nat.
Proof.
  induction 1 as [gap Hc|gap n ty p rest bs Hc Hn Hl Hb Ht Hr IH]; [cbn; lia|].
  cbn [length]. rewrite !app_length, repeat_length. lia.
Qed.

(* ---------- what the loop sees in a block ---------- *)
Lemma block_type_leader p : block_type (k7_body 0 p) = Ok BLeader. Proof. reflexivity. Qed.
Lemma block_type_data p : block_type (k7_body 1 p) = Ok BData. Proof. reflexivity. Qed.
Lemma block_type_eof p : block_type (k7_body 255 p) = Ok BEof. Proof. reflexivity. Qed.

Lemma block_body_k7 ty p : block_body (k7_body ty p) = p.
Proof.
  unfold block_body, k7_body. destruct body_bounds_are as (-> & -> & _).
  change (Z.to_nat 2) with 2%nat. change (Z.to_nat 1) with 1%nat.
  unfold slice. cbn [app skipn length]. rewrite !app_length. cbn [length].
  apply firstn_exact. lia.
Qed.

Definition kleader (f : k7_file) : leader :=
  mkLeader (strip_py (k_name f)) (strip_py (k_ext f)) (k_kind f) (k_mode f).

Lemma leader_of_block_k7 f : k7_file_ok f = true ->
  leader_of_block (k7_body 0 (k7_leader_payload f)) = Ok (kleader f).
Proof.
  intros Hok. destruct (file_ok_parts f Hok) as (Hn & He & H7 & _ & Hm & _).
  unfold kleader. destruct f as [nm ex kind mode chunks]. cbn [k_name k_ext k_kind k_mode k_chunks] in *.
  rewrite forallb_app in H7. apply andb_prop in H7. destruct H7 as [H7n H7e].
  unfold zlen in Hn, He.
  destruct nm as [|n1 [|n2 [|n3 [|n4 [|n5 [|n6 [|n7 [|n8 [|n9 nm]]]]]]]]]; cbn [length] in Hn; try lia.
  destruct ex as [|e1 [|e2 [|e3 [|e4 ex]]]]; cbn [length] in He; try lia.
  unfold leader_of_block, k7_leader_payload. cbn [k_name k_ext k_kind k_mode].
  set (RAW := k7_body 0 ([n1; n2; n3; n4; n5; n6; n7; n8] ++ [e1; e2; e3] ++ [kind; mode / 256; mode mod 256])).
  change (zslice ld_name_lo ld_name_hi RAW) with [n1; n2; n3; n4; n5; n6; n7; n8].
  change (zslice ld_ext_lo ld_ext_hi RAW) with [e1; e2; e3].
  change (znth ld_type_index RAW) with (Some kind).
  change (znth ld_mode_hi_index RAW) with (Some (mode / 256)).
  change (znth ld_mode_lo_index RAW) with (Some (mode mod 256)).
  unfold decode_ascii. rewrite H7n, H7e. cbn [bind]. rewrite ld_mode_of_is.
  f_equal. f_equal. lia.
Qed.

(* ---------- the extractor over the blocks of files ---------- *)
Lemma extract_data v target d fb : forall cs X pre idx cur bc fsz c acc fx bs,
  K7_blocks X (map (fun c => (1, c)) cs ++ bs) ->
  exists pre' X', K7_blocks X' bs /\ pre' ++ X' = pre ++ X /\
    forall fuel,
    extract_loop (length cs + fuel) v target (st pre X) (mkLst idx cur (Some (bc, fsz, fb)))
                 (Some d) (Some c) acc fx =
    extract_loop fuel v target (st pre' X')
                 (mkLst (idx + zlen cs) cur (Some (bc + zlen cs, fsz + zlen (concat cs), fb)))
                 (Some d) (Some (c ++ concat cs)) acc fx.
Proof.
  induction cs as [|c0 cs IH]; intros X pre idx cur bc fsz c acc fx bs HK.
  - exists pre, X. split; [exact HK|]. split; [reflexivity|]. intros fuel.
    cbn [length Nat.add concat]. change (zlen (@nil (list Z))) with 0. change (zlen (@nil Z)) with 0.
    now rewrite !Z.add_0_r, app_nil_r.
  - cbn [map app] in HK. destruct (next_block_cons pre X 1 c0 _ HK) as (pre1 & X1 & HK1 & Heq1 & Hnb).
    destruct (IH X1 pre1 (idx + 1) cur (bc + 1) (fsz + zlen c0) (c ++ c0) acc fx bs HK1)
      as (pre' & X' & HK' & Heq' & Hloop).
    exists pre', X'. split; [exact HK'|]. split; [congruence|]. intros fuel.
    cbn [length Nat.add extract_loop]. rewrite Hnb, block_type_data.
    unfold on_data. cbn [ls_counts ls_idx ls_cur]. rewrite block_body_k7.
    rewrite Hloop. cbn [concat]. rewrite zlen_cons, zlen_app, <- app_assoc.
    replace (idx + 1 + zlen cs) with (idx + (1 + zlen cs)) by lia.
    replace (bc + 1 + zlen cs) with (bc + (1 + zlen cs)) by lia.
    replace (fsz + zlen c0 + zlen (concat cs)) with (fsz + (zlen c0 + zlen (concat cs))) by lia.
    reflexivity.
Qed.

Definition kline (v : bool) (f : k7_file) (fb : Z) : list Z :=
  render_entry v (kleader f) (zlen (k_chunks f)) (zlen (k_content f)) fb.
Definition kwrite (target : list Z) (f : k7_file) : effect :=
  WriteFile (path_join target (safe_label (kleader f))) (k_content f).
Definition knonul (target : list Z) (f : k7_file) : bool :=
  negb (existsb (Z.eqb 0) (path_join target (safe_label (kleader f)))).

Lemma extract_file v target f : k7_file_ok f = true -> knonul target f = true ->
  forall X pre idx cur cnt desc content acc fx bs,
  K7_blocks X (blocks_of_file f ++ bs) ->
  exists pre' X' cnt', K7_blocks X' bs /\ pre' ++ X' = pre ++ X /\
    forall fuel,
    extract_loop (S (length (k_chunks f) + S fuel)) v target (st pre X) (mkLst idx cur cnt) desc content acc fx =
    extract_loop fuel v target (st pre' X') (mkLst (idx + 2 + zlen (k_chunks f)) (Some None) cnt')
                 (Some (kleader f)) (Some (k_content f)) (kline v f (idx + 1) :: acc) (kwrite target f :: fx).
Proof.
  intros Hok Hnul X pre idx cur cnt desc content acc fx bs HK.
  unfold blocks_of_file in HK. cbn [app] in HK. rewrite <- app_assoc in HK. cbn [app] in HK.
  destruct (next_block_cons pre X 0 _ _ HK) as (pre1 & X1 & HK1 & Heq1 & Hnb1).
  destruct (extract_data v target (kleader f) (idx + 1) (k_chunks f) X1 pre1 (idx + 1) (Some (Some (kleader f)))
              0 0 [] acc fx _ HK1) as (pre2 & X2 & HK2 & Heq2 & Hloop).
  destruct (next_block_cons pre2 X2 255 [] _ HK2) as (pre3 & X3 & HK3 & Heq3 & Hnb3).
  exists pre3, X3. eexists. split; [exact HK3|]. split; [congruence|]. intros fuel.
  cbn [extract_loop]. rewrite Hnb1, block_type_leader, leader_of_block_k7 by exact Hok.
  unfold on_begin. cbn [ls_idx]. rewrite Hloop.
  cbn [extract_loop]. rewrite Hnb3, block_type_eof.
  unfold knonul in Hnul. apply negb_true_iff in Hnul. rewrite Hnul.
  unfold on_end. cbn [ls_cur ls_counts ls_idx app].
  unfold kline, kwrite, k_content. rewrite !Z.add_0_l.
  replace (idx + 1 + zlen (k_chunks f) + 1) with (idx + 2 + zlen (k_chunks f)) by lia.
  reflexivity.
Qed.

Fixpoint nfuel (fs : list k7_file) (k : nat) : nat :=
  match fs with [] => k | f :: r => S (length (k_chunks f) + S (nfuel r k)) end.

Lemma nfuel_length fs k : nfuel fs k = (length (flat_map blocks_of_file fs) + k)%nat.
Proof.
  induction fs as [|f r IH]; [reflexivity|]. cbn [nfuel flat_map]. rewrite IH.
  unfold blocks_of_file. cbn [app length]. rewrite !app_length, map_length. cbn [length]. lia.
Qed.

Lemma extract_files v target : forall fs X pre idx cur cnt desc content acc fx k,
  K7_blocks X (flat_map blocks_of_file fs) ->
  forallb k7_file_ok fs = true -> forallb (knonul target) fs = true ->
  extract_loop (nfuel fs (S k)) v target (st pre X) (mkLst idx cur cnt) desc content acc fx =
  Some (rev acc ++ map (fun e => kline v (fst e) (snd e)) (k7_positions idx fs),
        rev fx ++ map (kwrite target) fs, None).
Proof.
  induction fs as [|f r IH]; intros X pre idx cur cnt desc content acc fx k HK Hok Hnul.
  - cbn [nfuel flat_map k7_positions map] in *. cbn [extract_loop].
    destruct (next_block_nil pre X HK) as (t' & Hnb). rewrite Hnb. now rewrite !app_nil_r.
  - cbn [forallb] in Hok, Hnul. apply andb_prop in Hok. apply andb_prop in Hnul.
    destruct Hok as [Hok1 Hok2], Hnul as [Hnul1 Hnul2].
    cbn [flat_map] in HK.
    destruct (extract_file v target f Hok1 Hnul1 X pre idx cur cnt desc content acc fx _ HK)
      as (pre' & X' & cnt' & HK' & Heq & Hloop).
    cbn [nfuel]. rewrite Hloop. rewrite IH by assumption.
    cbn [k7_positions map rev fst snd]. now rewrite <- !app_assoc.
Qed.

Lemma tar_extract_K7 v into arch raw fs :
  K7 raw fs -> forallb k7_file_ok fs = true ->
  forallb (knonul (match into with Some d => d | None => dirname arch end)) fs = true ->
  tar_extract v into arch raw =
  mkOutcome 0 (map (fun e => kline v (fst e) (snd e)) (k7_positions 0 fs))
            (match into with Some d => [MkDir d] | None => [] end ++
             map (kwrite (match into with Some d => d | None => dirname arch end)) fs) None.
Proof.
  intros HK Hok Hnul. unfold tar_extract.
  pose proof (K7_blocks_length _ _ HK) as Hlen.
  assert (Hfuel : fuel_of raw = nfuel fs (S (length raw - length (flat_map blocks_of_file fs)))).
  { rewrite nfuel_length. unfold fuel_of. lia. }
  rewrite Hfuel. change (tape_of_bytes raw) with (st [] raw). unfold lst0.
  rewrite (extract_files v _ fs raw [] 0 None None None None [] _ _ HK Hok Hnul).
  cbn [finish rev app]. now rewrite rev_involutive.
Qed.

(* ---------- round trip: labels of entries built from 8.3 sources ---------- *)
Lemma firstn_repeat_le {A} (a : A) : forall m n, (m <= n)%nat -> firstn m (repeat a n) = repeat a m.
Proof.
  induction m as [|m IH]; intros n H; [reflexivity|]. destruct n as [|n]; [lia|].
  cbn [repeat firstn]. rewrite IH by lia. reflexivity.
Qed.
Lemma pad_field_short n x : (length x <= n)%nat -> pad_field n x = x ++ repeat 32 (n - length x).
Proof.
  intros H. unfold pad_field. rewrite firstn_app, firstn_all2 by exact H.
  rewrite firstn_repeat_le by lia. reflexivity.
Qed.

Lemma rstrip_by_none p l : forallb (fun c => negb (p c)) l = true -> rstrip_by p l = l.
Proof.
  induction l as [|c l IH]; cbn [forallb rstrip_by]; [reflexivity|]. intros H.
  apply andb_prop in H. destruct H as [Hc Hl]. rewrite IH by exact Hl.
  destruct l; [|reflexivity]. destruct (p c); [discriminate|reflexivity].
Qed.
Lemma lstrip_by_none p l : forallb (fun c => negb (p c)) l = true -> lstrip_by p l = l.
Proof.
  destruct l as [|c l]; cbn [forallb lstrip_by]; [reflexivity|]. intros H.
  apply andb_prop in H. destruct H as [Hc Hl]. destruct (p c); [discriminate|reflexivity].
Qed.

Lemma okc_not_space c : okc c = true -> negb (is_space_py c) = true.
Proof. unfold okc, name_char, is_space_py. lia. Qed.

Lemma strip_pad_field n x : (length x <= n)%nat -> forallb okc x = true -> strip_py (pad_field n x) = x.
Proof.
  intros Hl Hx. rewrite pad_field_short by exact Hl. unfold strip_py, strip_by.
  rewrite rstrip_by_app_stripped by (now apply forallb_repeat).
  assert (Hn : forallb (fun c => negb (is_space_py c)) x = true).
  { revert Hx. apply forallb_impl. apply okc_not_space. }
  rewrite rstrip_by_none by exact Hn. now apply lstrip_by_none.
Qed.

Lemma safe_label_id d : forallb okc (file_label d) = true -> safe_label d = file_label d.
Proof.
  unfold safe_label. induction (file_label d) as [|c l IH]; cbn [forallb map]; [reflexivity|].
  intros H. apply andb_prop in H. destruct H as [Hc Hl]. rewrite IH by exact Hl. f_equal.
  destruct ext_sep_is as [-> ->]. cbn [zeqb_list]. unfold okc in Hc.
  destruct (c =? 47) eqn:E; [lia|reflexivity].
Qed.

Lemma okc_no_nul l : forallb okc l = true -> existsb (Z.eqb 0) l = false.
Proof.
  intros H. apply forallb_not_exists. revert H. apply forallb_impl. intros x. unfold okc, name_char. lia.
Qed.

Lemma path_join_cases a b : path_join a b = b \/ path_join a b = a ++ b \/ path_join a b = a ++ [47] ++ b.
Proof.
  unfold path_join.
  assert (H1 : match a with
     | [] => b | _ :: _ => if ends_with_slash a then a ++ b else a ++ [47] ++ b end = b \/
     match a with
     | [] => b | _ :: _ => if ends_with_slash a then a ++ b else a ++ [47] ++ b end = a ++ b \/
     match a with
     | [] => b | _ :: _ => if ends_with_slash a then a ++ b else a ++ [47] ++ b end = a ++ [47] ++ b).
  { destruct a as [|x a]; [now left|]. destruct (ends_with_slash (x :: a)); auto. }
  destruct b as [|c b]; [exact H1|].
  destruct (c =? 47) eqn:Ec.
  - assert (c = 47) by lia. subst c. now left.
  - assert (Hm : forall (X Y : list Z), match c with 47 => X | _ => Y end = Y).
    { intros X Y. destruct c as [|p|p]; try reflexivity.
      do 6 (destruct p as [p|p|]; try reflexivity). lia. }
    rewrite Hm. exact H1.
Qed.

Lemma path_join_no_nul a b : existsb (Z.eqb 0) a = false -> existsb (Z.eqb 0) b = false ->
  existsb (Z.eqb 0) (path_join a b) = false.
Proof.
  intros Ha Hb. destruct (path_join_cases a b) as [-> |[-> | ->]]; rewrite ?existsb_app, ?Ha, ?Hb; reflexivity.
Qed.

Lemma entry_roundtrip fs src : src_readable fs src = true -> src_83 src = true ->
  file_label (kleader (src_entry fs src)) = src_catname src /\
  safe_label (kleader (src_entry fs src)) = src_catname src /\
  k_content (src_entry fs src) = src_content fs src /\
  existsb (Z.eqb 0) (src_catname src) = false.
Proof.
  intros Hr H83. destruct (src_readable_read _ _ Hr) as (c & _ & _ & He & Hc & Hb).
  destruct (doc_fields src Hb) as (name & ext0 & ext & kind & mode & Hs & Hk & Hn & Hx & _ & _).
  unfold src_83 in H83. unfold src_catname. rewrite Hs, Hk in *.
  rewrite He, Hc. unfold doc_entry. rewrite Hs, Hk.
  assert (Hln : (length name <= 8)%nat) by (unfold zlen in H83; lia).
  assert (Hlx : (length ext <= 3)%nat) by (unfold zlen in H83; lia).
  unfold kleader, k_content. cbn [k_name k_ext k_kind k_mode k_chunks].
  rewrite !strip_pad_field by assumption.
  assert (Hlab : forallb okc (name ++ [46] ++ ext) = true).
  { rewrite !forallb_app, Hn, Hx. reflexivity. }
  split; [reflexivity|]. split; [|split].
  - rewrite safe_label_id; [reflexivity|]. exact Hlab.
  - apply chunks_of_concat. lia.
  - now apply okc_no_nul.
Qed.
