(* Proofs/DWriteAlloc.v — free blocks, sizes, and the shape of write_file. *)
From Coq Require Import ZArith List Bool Lia ZifyBool.
Require Import PyBase GenDisk DiskFacts DiskFactsWrite Disk ThomsonDos DiskDefs DWriteList DWriteLens DWriteSpec.
Import ListNotations.
Open Scope Z_scope.
Ltac Zify.zify_post_hook ::= Z.to_euclidean_division_equations.

(* ---------- free_blocks ---------- *)
Lemma wa_free_blocks_in bat : forall i b,
  In b (free_blocks bat i) <-> i <= b < i + zlen bat /\ st_free (nth (Z.to_nat (b - i)) bat 255) = true.
Proof.
  induction bat as [|st r IH]; intros i b; cbn [free_blocks].
  - unfold zlen. cbn [length In]. lia.
  - assert (Hz : zlen (st :: r) = 1 + zlen r) by (unfold zlen; cbn [length]; lia).
    pose proof (wl_zlen_nonneg r) as Hr.
    assert (Hstep : i < b -> nth (Z.to_nat (b - i)) (st :: r) 255 = nth (Z.to_nat (b - (i + 1))) r 255).
    { intros Hlt. replace (Z.to_nat (b - i)) with (S (Z.to_nat (b - (i + 1)))) by lia. reflexivity. }
    change (ba_is_free st) with (st_free st). destruct (st_free st) eqn:E.
    + cbn [In]. rewrite IH, Hz. split.
      * intros [<-|(H1 & H2)].
        -- split; [lia|]. now rewrite Z.sub_diag.
        -- split; [lia|]. now rewrite Hstep by lia.
      * intros (H1 & H2). destruct (Z.eq_dec i b) as [Heq|Hne]; [now left|right].
        split; [lia|]. now rewrite <- Hstep by lia.
    + rewrite IH, Hz. split.
      * intros (H1 & H2). split; [lia|]. now rewrite Hstep by lia.
      * intros (H1 & H2). destruct (Z.eq_dec i b) as [Heq|Hne].
        -- subst b. rewrite Z.sub_diag in H2. cbn [Z.to_nat nth] in H2. congruence.
        -- split; [lia|]. now rewrite <- Hstep by lia.
Qed.

Lemma wa_free_blocks_nodup bat : forall i, NoDup (free_blocks bat i).
Proof.
  induction bat as [|st r IH]; intros i; cbn [free_blocks]; [constructor|].
  destruct (ba_is_free st); [|apply IH]. constructor; [|apply IH].
  intros H. apply wa_free_blocks_in in H. lia.
Qed.

Lemma wa_free_blocks_count bat : forall i, zlen (free_blocks bat i) = count_status st_free bat.
Proof.
  unfold count_status. induction bat as [|st r IH]; intros i; cbn [free_blocks filter]; [reflexivity|].
  change (ba_is_free st) with (st_free st). destruct (st_free st).
  - unfold zlen in *. cbn [length]. specialize (IH (i + 1)). lia.
  - apply IH.
Qed.

Lemma wa_free_in f b : In b (free_blocks f 0) <-> 0 <= b < zlen f /\ st_free (fstatus f b) = true.
Proof. rewrite wa_free_blocks_in. unfold fstatus. rewrite Z.sub_0_r. cbn [Z.add]. reflexivity. Qed.

(* ---------- sizes ---------- *)
Definition plan_lastsec (len : Z) : Z := if len =? 0 then 0 else if 0 <? len mod 255 then len mod 255 else 255.
Definition plan_lastblk (len : Z) : Z := if 0 <? needed_sectors len mod 8 then needed_sectors len mod 8 else 8.

Lemma wa_plan_facts len : 0 <= len ->
  1 <= needed_sectors len /\ 1 <= needed_blocks len /\ 1 <= plan_lastblk len <= 8 /\
  needed_sectors len = 8 * (needed_blocks len - 1) + plan_lastblk len /\
  0 <= plan_lastsec len <= 255 /\
  (0 < len -> len = 255 * (needed_sectors len - 1) + plan_lastsec len /\ 1 <= plan_lastsec len) /\
  (len = 0 -> needed_sectors len = 1 /\ plan_lastsec len = 0) /\
  255 * (needed_sectors len - 1) < Z.max len 1 <= 255 * needed_sectors len.
Proof.
  intros Hlen. unfold needed_blocks, plan_lastblk, plan_lastsec.
  assert (Hs : needed_sectors len = if len =? 0 then 1 else (len + 254) / 255) by reflexivity.
  set (S := needed_sectors len) in *.
  destruct (len =? 0) eqn:E0; destruct (0 <? S mod 8) eqn:E1; destruct (0 <? len mod 255) eqn:E2; lia.
Qed.

(* ---------- write_file with the sizes made explicit ---------- *)
Definition wf_core (sd : side) (bat content name ext : list Z) (kind dtype sectors last_sector nblocks last_block : Z)
  : side * res unit :=
  let len := zlen content in
  let alloc := firstn (Z.to_nat nblocks) (free_blocks bat 0) in
  if zlen alloc <? nblocks then (sd, Err EValue)
  else
    match nth_error alloc 0 with
    | None => (sd, Err EIndex)
    | Some first =>
      match new_record name ext kind dtype first last_sector with
      | Err e => (sd, Err e)
      | Ok rec =>
        match write_slices (S (length content)) sd bat alloc content last_block 0 0 0 len with
        | Err e => (sd, Err e)
        | Ok (sd1, bat1) =>
          let sd2 := bat_set sd1 bat1 in
          match find_slot sd2 bat1 all_slots with
          | Err e => (sd2, Err e)
          | Ok (Some (s, off)) =>
            let cs := get_sec sd2 s in
            (set_sec sd2 s (set_payload cs (splice off (off + entry_size) rec cs)), Ok tt)
          | Ok None =>
            let bat2 := fold_left (fun bt b => set_status bt (Z.to_nat b) status_FREE) alloc bat1 in
            (bat_set sd2 bat2, Err EValue)
          end
        end
      end
    end.

Lemma wa_write_file sd bat content name ext kind dtype : bat_get sd = Ok bat ->
  write_file sd content name ext kind dtype =
  wf_core sd bat content name ext kind dtype (needed_sectors (zlen content)) (plan_lastsec (zlen content))
          (needed_blocks (zlen content)) (plan_lastblk (zlen content)).
Proof.
  intros Hb. unfold write_file. rewrite Hb. cbv zeta.
  pose proof (wl_zlen_nonneg content) as Hlen.
  rewrite gw_required_slots. change payload_per_sector with 255.
  assert (E1 : (if zlen content =? 0 then (1, 0)
                else (if 0 <? zlen content mod 255 then zlen content / 255 + 1 else zlen content / 255,
                      if 0 <? zlen content mod 255 then zlen content mod 255 else 255))
               = (needed_sectors (zlen content), plan_lastsec (zlen content))).
  { unfold needed_sectors, plan_lastsec. destruct (zlen content =? 0) eqn:E0; [reflexivity|].
    f_equal. destruct (0 <? zlen content mod 255) eqn:E2; lia. }
  rewrite E1. rewrite gw_required_slots. change sectors_per_block with 8.
  assert (E2 : (if 0 <? needed_sectors (zlen content) mod 8 then needed_sectors (zlen content) / 8 + 1
                else needed_sectors (zlen content) / 8) = needed_blocks (zlen content)).
  { unfold needed_blocks. destruct (0 <? needed_sectors (zlen content) mod 8) eqn:E; lia. }
  rewrite E2. reflexivity.
Qed.
