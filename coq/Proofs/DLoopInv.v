(* Proofs/DLoopInv.v — the invariant of the injector's loops and its preservation by
   inject_file, inject_sources and finish_sides. *)
From Coq Require Import ZArith List Bool Lia ZifyBool.
Require Import PyBase GenDisk DiskFacts DiskFactsLoop Disk ThomsonDos PyFacts DiskDefs DLoopBase DLoopArgs
  DiskGeoProofs DiskWriteProofs DLoopSlot.
Import ListNotations.
Open Scope Z_scope.
Ltac Zify.zify_post_hook ::= Z.to_euclidean_division_equations.

Definition core := (list Z * list Z * Z * bool * list Z)%type.

(* ---------- one side: image against report ---------- *)
(* the files of the side are [pre ++ post]: [pre] is made of the entries of the leading run of
   live catalogue slots and interleaves former files with the stored ones, in report order;
   [post] are former files *)
Definition side_rel (sd0 sd : side) (stored : list log_item) : Prop :=
  exists pre post opre new : list dos_file,
    dos_files sd0 = Some (opre ++ post) /\ dos_files sd = Some (pre ++ post) /\
    interleave opre new pre /\ (length pre <= lenlive (cat_entries sd))%nat /\
    map dos_view new = map item_dos stored /\ map file_view new = map item_view stored.

Lemma side_rel_start sd : tool_readable sd = true -> side_rel sd sd [].
Proof.
  intros H. destruct (tool_readable_parts sd H) as (_ & _ & _ & _ & fs & Hfs).
  exists [], fs, [], []. cbn [app length map]. repeat split; try assumption; [constructor|lia].
Qed.

Lemma side_rel_final sd0 sd stored : side_rel sd0 sd stored ->
  exists old new merged, dos_files sd0 = Some old /\ dos_files sd = Some merged /\ interleave old new merged /\
    map dos_view new = map item_dos stored /\ map file_view new = map item_view stored.
Proof.
  intros (pre & post & opre & new & H0 & H1 & Hi & _ & Hv & Hw).
  exists (opre ++ post), new, (pre ++ post). repeat split; try assumption.
  now apply interleave_app_left.
Qed.

Lemma app_eq_split {A} (a b c d : list A) : a ++ b = c ++ d -> (length a <= length c)%nat ->
  exists t, c = a ++ t /\ b = t ++ d.
Proof.
  revert c. induction a as [|x a IH]; intros c H Hl; cbn [app] in *.
  - exists c. split; [reflexivity|exact H].
  - destruct c as [|y c]; cbn [length] in Hl; [lia|]. cbn [app] in H. injection H as -> H.
    destruct (IH c H ltac:(lia)) as (t & -> & ->). exists t. split; reflexivity.
Qed.

(* the two possible outcomes of one writeFile, in the vocabulary of the invariant *)
Lemma write_file_cases sd content name ext kind dtype (s : Z) :
  tool_readable sd = true -> write_args_ok name ext kind dtype content = true ->
  exists sd',
    tool_readable sd' = true /\ (names_printable sd = true -> names_printable sd' = true) /\
    (fsck_strict sd = true -> fsck_strict sd' = true) /\
    ((write_file sd content name ext kind dtype = (sd', Ok tt) /\
      forall sd0 st0, side_rel sd0 sd st0 ->
        side_rel sd0 sd' (st0 ++ [LFile s name ext kind (dtype =? 1) true (zlen content)
                                         (inj_reported_blocks (zlen content)) content]))
     \/
     (write_file sd content name ext kind dtype = (sd', Err EValue) /\
      forall sd0 st0, side_rel sd0 sd st0 -> side_rel sd0 sd' st0)).
Proof.
  intros Htr Hargs.
  pose proof (write_file_step sd content name ext kind dtype Htr Hargs) as Hstep.
  pose proof (write_file_position sd content name ext kind dtype) as Hpos.
  destruct (write_file sd content name ext kind dtype) as [sd' r] eqn:Ew.
  cbn [fst snd] in Hstep, Hpos. destruct Hstep as (Htr' & Hnp & Hst & Hr).
  exists sd'. repeat (split; [assumption|]).
  destruct r as [u|e].
  - left. destruct u. split; [reflexivity|].
    destruct Hr as (_ & _ & fs1 & fs2 & blocks & Hd & Hd' & Hzb & Hfree & _).
    destruct (Hpos fs1 fs2 blocks Htr Hargs eq_refl Hd Hd' Hzb Hfree) as [Hl1 Hl2].
    intros sd0 st0 (pre & post & opre & new & H0 & H1 & Hi & Hlen & Hv & Hw).
    rewrite Hd in H1. injection H1 as H1. symmetry in H1.
    destruct (app_eq_split pre post fs1 fs2 H1 ltac:(lia)) as (t & -> & ->).
    set (f := stored_file name ext kind (dtype =? 1) content blocks) in *.
    exists (pre ++ t ++ [f]), fs2, (opre ++ t), (new ++ [f]).
    split; [rewrite H0; now rewrite <- app_assoc|].
    split; [rewrite Hd'; f_equal; rewrite <- !app_assoc; reflexivity|].
    split; [rewrite app_assoc; apply interleave_snoc_right; now apply interleave_app_left|].
    split; [rewrite !app_length in *; cbn [length]; lia|].
    rewrite !map_app, Hv, Hw. cbn [map]. split; f_equal.
    unfold f, stored_file, file_view, item_view. cbn [d_name d_ext d_kind d_flag d_content d_blocks].
    rewrite Hzb. rewrite inj_reported_blocks_is by apply zlen_nonneg'. reflexivity.
  - destruct e; try contradiction. right. split; [reflexivity|].
    destruct Hr as (_ & Hd & _ & Hc).
    intros sd0 st0 (pre & post & opre & new & H0 & H1 & Hi & Hlen & Hv & Hw).
    exists pre, post, opre, new. rewrite Hd, Hc. repeat split; assumption.
Qed.

(* ---------- the invariant, on (image, current side, report) ---------- *)
Definition linv (pd : pend) (cur : nat) (lg : list log_item) : Prop :=
  ((cur < 4)%nat -> log_inv lg (Z.of_nat cur) pd) /\ ((4 <= cur)%nat -> log_wf (-1) lg = true).

Record inv (img0 : image) (sp : list core) (pd : pend) (img : image) (cur : nat) (lg : list log_item) : Prop := mkInv {
  inv_len : length img = 4%nat;
  inv_tr : forallb tool_readable img = true;
  inv_np : forallb names_printable img0 = true -> forallb names_printable img = true;
  inv_st : forallb fsck_strict img0 = true -> forallb fsck_strict img = true;
  inv_cur : (cur <= 4)%nat;
  inv_rel : forall i, (i < 4)%nat -> side_rel (nth i img0 []) (nth i img []) (stored_on i lg);
  inv_log : linv pd cur lg;
  inv_sub : subseq (cores lg) sp
}.
Definition sinv img0 sp pd (st : istate) : Prop := inv img0 sp pd (i_img st) (i_cur st) (i_log st).

Lemma inv_cur_side img0 sp pd img cur lg : inv img0 sp pd img cur lg -> (cur < 4)%nat ->
  tool_readable (nth cur img []) = true.
Proof.
  intros H Hc. apply forallb_nth; [apply (inv_tr _ _ _ _ _ _ H)|]. rewrite (inv_len _ _ _ _ _ _ H). exact Hc.
Qed.

(* start *)
Lemma inv_start img0 : length img0 = 4%nat -> forallb tool_readable img0 = true ->
  inv img0 [] PNone img0 0 [LSide 0].
Proof.
  intros Hl Ht. constructor; try assumption; try (intros H; exact H); try lia.
  - intros i Hi. rewrite stored_on_side. apply side_rel_start. apply forallb_nth; [exact Ht|nlia].
  - split; [intros _|lia]. exact (log_inv_side [] (-1) log_inv_start ltac:(lia)).
  - rewrite cores_side. constructor.
Qed.

(* end of the current side: the next one is opened, if there is one *)
Lemma inv_next_open img0 sp pd img cur lg : inv img0 sp pd img cur lg -> (S cur < 4)%nat ->
  match pd with POpen _ _ _ _ => False | _ => True end ->
  inv img0 sp (match pd with PRef n e sz c => POpen n e sz c | _ => PNone end) img (S cur)
      (lg ++ [LSide (Z.of_nat (S cur))]).
Proof.
  intros H Hc Hpd. destruct H as [H1 H2 H3 H4 H5 H6 H7 H8].
  constructor; try assumption; try lia.
  - intros i Hi. rewrite stored_on_app, stored_on_side, app_nil_r. now apply H6.
  - destruct H7 as [H7 _]. specialize (H7 ltac:(lia)). split; [intros _|lia].
    replace (Z.of_nat (S cur)) with (Z.of_nat cur + 1) by lia.
    destruct pd as [|n e sz c|n e sz c]; [|apply log_inv_side_ref|contradiction]; try assumption; try lia.
    apply log_inv_side; [assumption|lia].
  - rewrite cores_app, cores_side, app_nil_r. exact H8.
Qed.

Lemma inv_next_last img0 sp pd pd' img lg : inv img0 sp pd img 3 lg ->
  match pd with POpen _ _ _ _ => False | _ => True end ->
  inv img0 sp pd' img 4 lg.
Proof.
  intros H Hpd. destruct H as [H1 H2 H3 H4 H5 H6 H7 H8].
  constructor; try assumption; try lia.
  destruct H7 as [H7 _]. specialize (H7 ltac:(lia)). split; [lia|intros _].
  change (Z.of_nat 3) with 3 in H7.
  destruct pd as [|n e sz c|n e sz c]; [exact (log_inv_done _ _ H7)|exact (log_inv_done_ref _ _ _ _ _ H7)|contradiction].
Qed.

Lemma inv_weaken_sp img0 sp sp' pd img cur lg : inv img0 sp pd img cur lg -> inv img0 (sp ++ sp') pd img cur lg.
Proof.
  intros [H1 H2 H3 H4 H5 H6 H7 H8]. constructor; try assumption. now apply subseq_app_right.
Qed.

Lemma inv_weaken_pd img0 sp pd img cur lg : inv img0 sp PNone img cur lg -> inv img0 sp pd img cur lg.
Proof.
  intros [H1 H2 H3 H4 H5 H6 H7 H8]. constructor; try assumption.
  destruct H7 as [H7 H7']. split; [|exact H7']. intros Hc. apply log_inv_weaken. now apply H7.
Qed.

(* one file event on the current side *)
Lemma inv_write img0 sp sp' pd pd' img cur lg sd' item :
  inv img0 sp pd img cur lg -> (cur < 4)%nat ->
  tool_readable sd' = true ->
  (names_printable (nth cur img []) = true -> names_printable sd' = true) ->
  (fsck_strict (nth cur img []) = true -> fsck_strict sd' = true) ->
  (forall sd0, side_rel sd0 (nth cur img []) (stored_on cur lg) -> side_rel sd0 sd' (stored_on cur (lg ++ [item]))) ->
  (forall i, i <> cur -> stored_on i [item] = []) ->
  (log_inv lg (Z.of_nat cur) pd -> log_inv (lg ++ [item]) (Z.of_nat cur) pd') ->
  (subseq (cores lg) sp -> subseq (cores (lg ++ [item])) sp') ->
  inv img0 sp' pd' (upd cur sd' img) cur (lg ++ [item]).
Proof.
  intros [H1 H2 H3 H4 H5 H6 H7 H8] Hc Htr Hnp Hst Hrel Hoth Hlog Hsub.
  constructor.
  - rewrite upd_length; lia.
  - now apply upd_forallb.
  - intros H. specialize (H3 H). apply upd_forallb; [exact H3|]. apply Hnp. apply forallb_nth; [exact H3|lia].
  - intros H. specialize (H4 H). apply upd_forallb; [exact H4|]. apply Hst. apply forallb_nth; [exact H4|lia].
  - exact H5.
  - intros i Hi. destruct (Nat.eq_dec i cur) as [->|Hne].
    + rewrite upd_nth_same by lia. apply Hrel. now apply H6.
    + rewrite upd_nth_other by lia. rewrite stored_on_app, (Hoth i Hne), app_nil_r. now apply H6.
  - destruct H7 as [H7 _]. split; [|lia]. intros _. apply Hlog. now apply H7.
  - now apply Hsub.
Qed.

(* ---------- inject_file ---------- *)
Lemma has_controller_is st : has_controller st = Nat.ltb (i_cur st) 4.
Proof. reflexivity. Qed.

Lemma set_cur_side_is st sd :
  set_cur_side st sd = mkI (upd (i_cur st) sd (i_img st)) (i_cur st) (i_lst st) (i_text st) (i_log st).
Proof. reflexivity. Qed.

Lemma cur_side_note st x : cur_side (note st x) = cur_side st.
Proof. reflexivity. Qed.
Lemma cur_side_emit st o : cur_side (emit st o) = cur_side st.
Proof. reflexivity. Qed.
Lemma cur_side_set st sd : cur_side (set_cur_side st sd) = nth (i_cur st) (upd (i_cur st) sd (i_img st)) [].
Proof. reflexivity. Qed.

Lemma inject_file_inv img0 sp v name ext kind dtype data :
  write_args_ok name ext kind dtype data = true ->
  forall fuel st, sinv img0 sp (POpen name ext (zlen data) data) st ->
    (i_cur st < 4)%nat -> (4 < fuel + i_cur st)%nat ->
    exists st', inject_file fuel v st name ext kind dtype data = Ok st' /\
                sinv img0 (sp ++ [(name, ext, kind, dtype =? 1, data)]) PNone st'.
Proof.
  intros Hargs. induction fuel as [|fuel IH]; intros st Hinv Hc Hf; [lia|].
  cbn [inject_file]. rewrite has_controller_is.
  destruct (Nat.ltb (i_cur st) 4) eqn:E; [|apply Nat.ltb_ge in E; lia]. cbn [negb].
  cbv zeta.
  change (cur_side (emit st (on_begin_file v PUpdating (i_lst st) entry_ALIVE name ext kind (dtype =? 1))))
    with (nth (i_cur st) (i_img st) []).
  pose proof (inv_cur_side _ _ _ _ _ _ Hinv Hc) as Htr.
  destruct (write_file_cases _ data name ext kind dtype (Z.of_nat (i_cur st)) Htr Hargs)
    as (sd' & Htr' & Hnp & Hst & [[Ew Hrel]|[Ew Hrel]]); rewrite Ew.
  - (* stored *)
    eexists. split; [reflexivity|]. unfold sinv.
    cbn [note emit set_cur_side i_img i_cur i_log fst snd]. fold (upd (i_cur st) sd' (i_img st)).
    apply (inv_write img0 sp _ (POpen name ext (zlen data) data) PNone (i_img st) (i_cur st) (i_log st) sd');
      try assumption.
    + intros sd0 H. rewrite stored_on_app, stored_on_file, Z.eqb_refl. cbn [andb]. now apply Hrel.
    + intros i Hi. rewrite stored_on_file. destruct (Z.of_nat (i_cur st) =? Z.of_nat i) eqn:E2; [lia|reflexivity].
    + apply log_inv_stored.
    + intros H. rewrite cores_app, cores_file. now apply subseq_snoc.
  - (* refused on this side *)
    set (item := LFile (Z.of_nat (i_cur st)) name ext kind (dtype =? 1) false (zlen data) 0 data).
    assert (Hinv2 : inv img0 sp (PRef name ext (zlen data) data) (upd (i_cur st) sd' (i_img st)) (i_cur st) (i_log st ++ [item])).
    { apply (inv_write img0 sp sp (POpen name ext (zlen data) data) _ (i_img st) (i_cur st) (i_log st) sd');
        try assumption.
      - intros sd0 H. rewrite stored_on_app. unfold item. rewrite stored_on_file, andb_false_r, app_nil_r. now apply Hrel.
      - intros i Hi. unfold item. rewrite stored_on_file, andb_false_r. reflexivity.
      - apply log_inv_refused.
      - intros H. rewrite cores_app. unfold item. rewrite cores_file, app_nil_r. exact H. }
    rewrite cur_side_note, cur_side_emit, cur_side_set. cbn [emit i_img i_cur].
    rewrite upd_nth_same by (rewrite (inv_len _ _ _ _ _ _ Hinv); exact Hc).
    destruct (compute_usage_ok sd' Htr') as (u & ->).
    rewrite has_controller_is. cbn [next_side emit note set_cur_side i_cur].
    destruct (Nat.ltb (S (i_cur st)) 4) eqn:E3; cbn [negb].
    + apply Nat.ltb_lt in E3.
      pose proof (inv_next_open _ _ _ _ _ _ Hinv2 E3 I) as Hinv3. cbn match in Hinv3.
      apply IH; [exact Hinv3|exact E3|cbn [open_side note emit next_side set_cur_side i_cur]; lia].
    + apply Nat.ltb_ge in E3. eexists. split; [reflexivity|].
      unfold sinv. cbn [next_side emit note set_cur_side i_img i_cur i_log].
      assert (Hc3 : i_cur st = 3%nat) by lia. rewrite Hc3 in *.
      apply inv_weaken_sp. exact (inv_next_last _ _ _ PNone _ _ Hinv2 I).
Qed.

(* ---------- end of a side ---------- *)
Lemma sinv_emit img0 sp pd st o : sinv img0 sp pd st -> sinv img0 sp pd (emit st o).
Proof. intros H. exact H. Qed.

(* emit the end of the side, move on, open the next side if there is one *)
Lemma next_side_inv img0 sp v st o : sinv img0 sp PNone st -> (i_cur st < 4)%nat ->
  let st2 := next_side (emit st o) in
  if has_controller st2 then sinv img0 sp PNone (open_side v st2) /\ (i_cur (open_side v st2) < 4)%nat
  else sinv img0 sp PNone st2.
Proof.
  intros Hinv Hc st2. rewrite has_controller_is. unfold st2. cbn [next_side emit i_cur].
  destruct (Nat.ltb (S (i_cur st)) 4) eqn:E.
  - apply Nat.ltb_lt in E. split; [|cbn [open_side note emit next_side i_cur]; exact E].
    unfold sinv. cbn [open_side note emit next_side i_img i_cur i_log].
    exact (inv_next_open _ _ _ _ _ _ Hinv E I).
  - apply Nat.ltb_ge in E. unfold sinv. cbn [next_side emit i_img i_cur i_log].
    assert (Hc3 : i_cur st = 3%nat) by lia. unfold sinv in Hinv. rewrite Hc3 in *.
    exact (inv_next_last _ _ _ PNone _ _ Hinv I).
Qed.

(* ---------- inject_sources ---------- *)
Lemma inject_sources_inv img0 v fs : sources_ok fs ->
  forall srcs, Forall (fun s => forallb printable_char s = true) srcs ->
  forall sp st, sinv img0 sp PNone st -> (i_cur st < 4)%nat ->
  exists st', inject_sources v fs st srcs = Ok st' /\
              sinv img0 (sp ++ somes (map (source_item fs) srcs)) PNone st'.
Proof.
  intros Hfs. induction 1 as [|src rest Hsrc Hrest IH]; intros sp st Hinv Hc.
  - exists st. split; [reflexivity|]. cbn [map somes]. rewrite app_nil_r. exact Hinv.
  - cbn [inject_sources map somes]. unfold source_item at 1.
    destruct (zeqb_list (upper_ascii (basename src)) eos_marker) eqn:Eeos.
    + (* --eos *)
      destruct (compute_usage_ok _ (inv_cur_side _ _ _ _ _ _ Hinv Hc)) as (u & Hu).
      unfold cur_side at 1. rewrite Hu. cbv zeta.
      pose proof (next_side_inv img0 sp v st (on_end_side v PUpdating (i_lst st) u) Hinv Hc) as Hn.
      cbv zeta in Hn.
      destruct (has_controller (next_side (emit st (on_end_side v PUpdating (i_lst st) u)))); cbn [negb].
      * destruct Hn as [Hn1 Hn2]. exact (IH sp _ Hn1 Hn2).
      * eexists. split; [reflexivity|]. apply inv_weaken_sp. exact Hn.
    + destruct (split_source src) as [[[name ext] ext_opt] clean] eqn:Es.
      destruct (fs_read fs clean) as [data|] eqn:Er.
      * destruct (inj_name_max <? zlen name) eqn:E1; cbn [orb].
        { apply IH; [apply sinv_emit; exact Hinv|exact Hc]. }
        destruct (inj_ext_max <? zlen ext) eqn:E2.
        { apply IH; [apply sinv_emit; exact Hinv|exact Hc]. }
        destruct (processor_of name ext ext_opt) as [[forced kind] dtype] eqn:Ep.
        pose proof (injector_args_ok fs src name ext ext_opt clean data forced kind dtype Hfs Hsrc Es Er Ep) as Hargs.
        rewrite side_count_nat.
        destruct (inject_file_inv img0 sp v name _ kind dtype data Hargs 5%nat st
                    (inv_weaken_pd _ _ _ _ _ _ Hinv) Hc ltac:(lia)) as (st1 & -> & Hinv1).
        cbn [somes]. rewrite has_controller_is.
        replace (sp ++ (name, match forced with Some x => x | None => ext end, kind, dtype =? 1, data)
                       :: somes (map (source_item fs) rest))
          with ((sp ++ [(name, match forced with Some x => x | None => ext end, kind, dtype =? 1, data)])
                  ++ somes (map (source_item fs) rest)) by (rewrite <- app_assoc; reflexivity).
        destruct (Nat.ltb (i_cur st1) 4) eqn:E3; cbn [negb].
        { apply Nat.ltb_lt in E3. exact (IH _ st1 Hinv1 E3). }
        { eexists. split; [reflexivity|]. apply inv_weaken_sp. exact Hinv1. }
      * apply IH; [apply sinv_emit; exact Hinv|exact Hc].
Qed.

(* ---------- finish_sides ---------- *)
Lemma finish_sides_inv img0 sp v : forall fuel st, sinv img0 sp PNone st -> (i_cur st < 4)%nat ->
  exists st', finish_sides fuel v st = Ok st' /\ sinv img0 sp PNone st'.
Proof.
  induction fuel as [|fuel IH]; intros st Hinv Hc.
  - exists st. split; [reflexivity|exact Hinv].
  - cbn [finish_sides]. rewrite side_count_nat.
    destruct (Nat.ltb (S (i_cur st)) 4) eqn:E; [|exists st; split; [reflexivity|exact Hinv]].
    apply Nat.ltb_lt in E. cbv zeta.
    assert (Hinv2 : sinv img0 sp PNone (open_side v (next_side st))).
    { unfold sinv. cbn [open_side note emit next_side i_img i_cur i_log].
      exact (inv_next_open _ _ _ _ _ _ Hinv E I). }
    assert (Hc2 : (i_cur (open_side v (next_side st)) < 4)%nat) by exact E.
    destruct (compute_usage_ok _ (inv_cur_side _ _ _ _ _ _ Hinv2 Hc2)) as (u & Hu).
    unfold cur_side at 1. rewrite Hu.
    apply IH; [apply sinv_emit; exact Hinv2|exact Hc2].
Qed.

(* ---------- inject_perform ---------- *)
Lemma inject_perform_inv is_fd v (init : bool) fs arch img srcs img0 :
  length img = 4%nat -> img0 = (if init then map init_fs img else img) ->
  forallb tool_readable img0 = true -> sources_ok fs ->
  Forall (fun s => forallb printable_char s = true) srcs ->
  exists st text,
    inject_perform is_fd v init fs arch img srcs =
      mkDOutcome 0 text [WriteFile arch (save_image is_fd (i_img st))] None (i_log st) /\
    sinv img0 (somes (map (source_item fs) srcs)) PNone st.
Proof.
  intros Hl Himg0 Htr Hfs Hsrcs. unfold inject_perform. rewrite side_count_nat, Hl. cbn [Nat.ltb Nat.leb].
  rewrite firstn_all2, skipn_all2, app_nil_r by lia. rewrite <- Himg0. cbv zeta.
  assert (Hl0 : length img0 = 4%nat).
  { rewrite Himg0. destruct init; [rewrite map_length|]; exact Hl. }
  assert (Hinv0 : sinv img0 [] PNone (open_side v (mkI img0 0 dlst0 [] []))).
  { unfold sinv. cbn [open_side note emit i_img i_cur i_log app]. exact (inv_start img0 Hl0 Htr). }
  destruct (inject_sources_inv img0 v fs Hfs srcs Hsrcs [] _ Hinv0 ltac:(cbn; lia)) as (st1 & -> & Hinv1).
  cbn [app] in Hinv1. rewrite has_controller_is.
  destruct (Nat.ltb (i_cur st1) 4) eqn:E.
  - apply Nat.ltb_lt in E.
    destruct (compute_usage_ok _ (inv_cur_side _ _ _ _ _ _ Hinv1 E)) as (u & Hu).
    unfold cur_side at 1. rewrite Hu.
    destruct (finish_sides_inv img0 _ v 4%nat _ (sinv_emit _ _ _ _ (on_end_side v PUpdating (i_lst st1) u) Hinv1) E)
      as (st2 & -> & Hinv2).
    destruct (on_done v PUpdating (i_lst st2)) as [o s].
    exists st2, (i_text st2 ++ o). split; [reflexivity|exact Hinv2].
  - destruct (on_done v PUpdating (i_lst st1)) as [o s].
    exists st1, (i_text st1 ++ o). split; [reflexivity|exact Hinv1].
Qed.

(* what the invariant says at the end *)
Lemma sinv_log_wf img0 sp st : sinv img0 sp PNone st -> log_wf (-1) (i_log st) = true.
Proof.
  intros H. destruct (inv_log _ _ _ _ _ _ H) as [H1 H2].
  destruct (Nat.ltb (i_cur st) 4) eqn:E.
  - apply Nat.ltb_lt in E. exact (log_inv_done _ _ (H1 E)).
  - apply Nat.ltb_ge in E. exact (H2 E).
Qed.
