(* Proofs/DiskDocProofs.v — the injector's dispatch agrees with the documented extension rules (C04). TOP statement fixed. *)
From Coq Require Import ZArith List Bool Lia ZifyBool String.
Require Import PyBase GenDisk DiskFacts Disk ThomsonDos PyFacts DiskDefs.
Import ListNotations.
Open Scope Z_scope.

(* ---------------- helpers: list equality test, separators ---------------- *)
Lemma zeqb_list_iff a : forall b, zeqb_list a b = true <-> a = b.
Proof.
  induction a as [|x a IH]; intros [|y b]; cbn [zeqb_list]; try easy.
  rewrite andb_true_iff, IH, Z.eqb_eq. split.
  - intros [-> ->]. reflexivity.
  - intros H. injection H. auto.
Qed.

Lemma zeqb_list_false a b : a <> b -> zeqb_list a b = false.
Proof.
  intros H. destruct (zeqb_list a b) eqn:E; [|reflexivity].
  apply zeqb_list_iff in E. contradiction.
Qed.

Lemma existsb_mid (c : Z) a b : existsb (Z.eqb c) (a ++ c :: b) = true.
Proof. rewrite existsb_app. cbn [existsb]. rewrite Z.eqb_refl. cbn [orb]. apply orb_true_r. Qed.

(* a list is cut in one way only at its last separator *)
Lemma split_at_last_sep (c : Z) : forall a a' b b',
  existsb (Z.eqb c) b = false -> existsb (Z.eqb c) b' = false ->
  a ++ c :: b = a' ++ c :: b' -> a = a' /\ b = b'.
Proof.
  induction a as [|x a IH]; intros [|y a'] b b' Hb Hb' H; cbn [app] in H.
  - injection H as ->. auto.
  - injection H as _ H. subst b. rewrite existsb_mid in Hb. discriminate.
  - injection H as _ H. subst b'. rewrite existsb_mid in Hb'. discriminate.
  - injection H as -> H. destruct (IH _ _ _ Hb Hb' H) as [-> ->]. auto.
Qed.

Lemma str_dot : str "." = [46].
Proof. reflexivity. Qed.

Lemma dotted_neq name ext k :
  existsb (Z.eqb 46) k = false -> zeqb_list (name ++ 46 :: ext) k = false.
Proof.
  intros Hk. apply zeqb_list_false. intros <-. rewrite existsb_mid in Hk. discriminate.
Qed.

Lemma autobat_iff name ext : existsb (Z.eqb 46) ext = false ->
  zeqb_list (name ++ 46 :: ext) [65;85;84;79;46;66;65;84]
  = zeqb_list name [65;85;84;79] && zeqb_list ext [66;65;84].
Proof.
  intros He. destruct (zeqb_list name [65;85;84;79] && zeqb_list ext [66;65;84]) eqn:E.
  - apply andb_true_iff in E. destruct E as [E1 E2].
    apply zeqb_list_iff in E1. apply zeqb_list_iff in E2. subst. reflexivity.
  - apply zeqb_list_false. intros H.
    change [65;85;84;79;46;66;65;84] with ([65;85;84;79] ++ 46 :: [66;65;84]) in H.
    apply split_at_last_sep in H; [|assumption|reflexivity].
    destruct H as [-> ->]. vm_compute in E. discriminate.
Qed.

(* the README table holds as soon as the extension-with-option has no dot either (always the
   case for what split_source produces: see split_source_ext_opt_no_dot below) *)
Lemma processors_match_documentation_nodot : forall (name ext ext_opt : list Z),
  existsb (Z.eqb 46) ext = false ->
  existsb (Z.eqb 46) ext_opt = false ->
  let '(forced, kind, dtype) := processor_of name ext ext_opt in
  let '(ext_doc, kind_doc, flag_doc) := doc_disk_kind name ext ext_opt in
  kind = kind_doc /\ data_to_byte dtype = flag_doc /\ (dtype = 0 \/ dtype = 1) /\ 0 <= kind < 4 /\
  match forced with Some x => x | None => ext end = ext_doc.
Proof.
  intros name ext ext_opt He Ho.
  unfold processor_of, doc_disk_kind. rewrite str_dot. cbn [app].
  unfold inj_processors. cbn [lookup_proc].
  rewrite !(dotted_neq name ext) by reflexivity.
  rewrite (autobat_iff name ext He).
  rewrite (zeqb_list_false ext_opt [65;85;84;79;46;66;65;84])
    by (intros ->; vm_compute in Ho; discriminate).
  destruct (zeqb_list name [65;85;84;79] && zeqb_list ext [66;65;84]).
  { cbv - [Z.le Z.lt]. split; [reflexivity|split; [reflexivity|split; [lia|split; [lia|reflexivity]]]]. }
  destruct (zeqb_list ext_opt [66;65;83]) eqn:E1.
  { apply zeqb_list_iff in E1. subst ext_opt. cbv - [Z.le Z.lt].
    split; [reflexivity|split; [reflexivity|split; [lia|split; [lia|reflexivity]]]]. }
  destruct (zeqb_list ext_opt [66;65;83;44;65]) eqn:E2.
  { apply zeqb_list_iff in E2. subst ext_opt. cbv - [Z.le Z.lt].
    split; [reflexivity|split; [reflexivity|split; [lia|split; [lia|reflexivity]]]]. }
  destruct (zeqb_list ext_opt [66;73;78]) eqn:E3.
  { apply zeqb_list_iff in E3. subst ext_opt. cbv - [Z.le Z.lt].
    split; [reflexivity|split; [reflexivity|split; [lia|split; [lia|reflexivity]]]]. }
  destruct (zeqb_list ext_opt [84;88;84]) eqn:E4.
  { apply zeqb_list_iff in E4. subst ext_opt. cbv - [Z.le Z.lt].
    split; [reflexivity|split; [reflexivity|split; [lia|split; [lia|reflexivity]]]]. }
  cbv - [Z.le Z.lt].
  split; [reflexivity|split; [reflexivity|split; [lia|split; [lia|reflexivity]]]].
Qed.

(* SUSPECT: the TOP statement below is FALSE as worded: it puts no condition on ext_opt, and the
   tool's table has a fifth key "AUTO.BAT" that is also looked up with ext_opt.  With name = "X",
   ext = "Y", ext_opt = "AUTO.BAT": processor_of gives (None, 0, 0) (BASIC program) while
   doc_disk_kind gives ("Y", 1, 0) (BASIC data).  Machine-checked refutation: *)
Lemma processors_match_documentation_counterexample :
  ~ (forall (name ext ext_opt : list Z),
      existsb (Z.eqb 46) ext = false ->
      let '(forced, kind, dtype) := processor_of name ext ext_opt in
      let '(ext_doc, kind_doc, flag_doc) := doc_disk_kind name ext ext_opt in
      kind = kind_doc /\ data_to_byte dtype = flag_doc /\ (dtype = 0 \/ dtype = 1) /\ 0 <= kind < 4 /\
      match forced with Some x => x | None => ext end = ext_doc).
Proof.
  intros H. specialize (H [88] [89] [65;85;84;79;46;66;65;84] eq_refl).
  vm_compute in H. destruct H as [H _]. discriminate.
Qed.

(* TOP: kind, ASCII flag and stored extension chosen by the tool for (name, extension, extension
   with option) are those of the README table written in Spec.doc_disk_kind: AUTO.BAT and BAS ->
   BASIC program, binary; BAS,a -> BASIC program, ASCII, stored as BAS; BIN -> machine-language
   module; TXT -> text, ASCII; anything else -> BASIC data, binary *)
(* the first wording of this theorem (no condition on ext_opt) was FALSE: see processors_match_documentation_counterexample below;
   the corrected forms are processors_match_documentation_nodot and split_source_processors_match *)


(* ---------------- helpers: last dot, base name ---------------- *)
Lemma upper_char_dot x : (46 =? upper_char x) = (46 =? x).
Proof. unfold upper_char. destruct ((97 <=? x) && (x <=? 122)) eqn:E; lia. Qed.

Lemma existsb_upper l : existsb (Z.eqb 46) (upper_ascii l) = existsb (Z.eqb 46) l.
Proof.
  unfold upper_ascii. induction l as [|x l IH]; cbn [map existsb]; [reflexivity|].
  rewrite upper_char_dot, IH. reflexivity.
Qed.

Lemma rfind_aux_spec c : forall l i acc j, rfind_aux c l i acc = Some j ->
  (acc = Some j /\ existsb (Z.eqb c) l = false) \/
  ((i <= j)%nat /\ (j < i + List.length l)%nat /\ existsb (Z.eqb c) (skipn (S (j - i)) l) = false).
Proof.
  induction l as [|x l IH]; intros i acc j H; cbn [rfind_aux] in H.
  - left. split; auto.
  - apply IH in H. destruct H as [[Ha Hl]|(H1 & H2 & H3)].
    + destruct (x =? c) eqn:E.
      * injection Ha as <-. right. split; [lia|]. split; [cbn [List.length]; lia|].
        replace (i - i)%nat with 0%nat by lia. cbn [skipn]. exact Hl.
      * left. split; [exact Ha|]. cbn [existsb]. rewrite Z.eqb_sym, E. exact Hl.
    + right. split; [lia|]. split; [cbn [List.length]; lia|].
      replace (S (j - i)) with (S (S (j - S i))) by lia. cbn [skipn]. exact H3.
Qed.

Lemma rfind_char_spec c l j : rfind_char c l = Some j ->
  (j < List.length l)%nat /\ existsb (Z.eqb c) (skipn (S j) l) = false.
Proof.
  unfold rfind_char. intros H. apply rfind_aux_spec in H.
  destruct H as [[H _]|(_ & H2 & H3)]; [discriminate|].
  rewrite Nat.sub_0_r in H3. split; [lia|exact H3].
Qed.

Lemma rfind_aux_snoc c x : x <> c -> forall p i acc,
  rfind_aux c (p ++ [x]) i acc = rfind_aux c p i acc.
Proof.
  intros Hx. induction p as [|y p IH]; intros i acc; cbn [app rfind_aux].
  - destruct (x =? c) eqn:E; [lia|reflexivity].
  - apply IH.
Qed.

Lemma basename_snoc2 p x y : x <> 47 -> y <> 47 -> basename (p ++ [x; y]) = basename p ++ [x; y].
Proof.
  intros Hx Hy. unfold basename, after_last_slash, rfind_char.
  replace (p ++ [x; y]) with ((p ++ [x]) ++ [y]) by (rewrite <- app_assoc; reflexivity).
  rewrite !rfind_aux_snoc by assumption. rewrite <- app_assoc. cbn [app].
  destruct (rfind_aux 47 p 0 None) as [i|] eqn:E; [|reflexivity].
  apply (rfind_char_spec 47 p i) in E. destruct E as [E _].
  rewrite skipn_app. replace (S i - List.length p)%nat with 0%nat by lia. reflexivity.
Qed.

(* src ends with ",a" or ",A" *)
Lemma ends_commaA src : zeqb_list (upper_ascii (last_n 2 src)) (str ",A") = true ->
  exists x y, src = drop_last 2 src ++ [x; y] /\ x <> 47 /\ y <> 47.
Proof.
  intros H. apply zeqb_list_iff in H. unfold last_n in H. unfold drop_last.
  pose proof (firstn_skipn (List.length src - 2) src) as Hs.
  destruct (skipn (List.length src - 2) src) as [|x [|y [|z t]]]; try discriminate H.
  exists x, y. split; [symmetry; exact Hs|].
  change (str ",A") with [44; 65] in H. cbn [upper_ascii map] in H.
  injection H as Hx Hy. unfold upper_char in Hx, Hy.
  destruct ((97 <=? x) && (x <=? 122)) eqn:Ex; destruct ((97 <=? y) && (y <=? 122)) eqn:Ey; lia.
Qed.

Lemma existsb_skipn_prefix (f : Z -> bool) n a b :
  existsb f (skipn n (a ++ b)) = false -> existsb f (skipn n a) = false.
Proof.
  rewrite skipn_app, existsb_app. intros H. apply orb_false_iff in H. apply H.
Qed.

(* TOP: what split_source hands to processor_of never has a dot in the extension, and the three
   fields are upper-case images of parts of the base name *)
Theorem split_source_ext_no_dot : forall src : list Z,
  let '(name, ext, ext_opt, clean) := split_source src in existsb (Z.eqb 46) ext = false.
Proof.
  intros src. unfold split_source.
  destruct (rfind_char 46 (basename src)) as [dot|] eqn:Hd; [|reflexivity].
  rewrite existsb_upper. apply rfind_char_spec in Hd. destruct Hd as [_ Hd].
  destruct (zeqb_list (upper_ascii (last_n 2 src)) (str ",A")) eqn:E; [|exact Hd].
  destruct (ends_commaA _ E) as (x & y & Hs & Hx & Hy).
  remember (drop_last 2 src) as p eqn:Hp. clear Hp. subst src.
  rewrite basename_snoc2 in Hd by assumption.
  eapply existsb_skipn_prefix. exact Hd.
Qed.

(* the extension-with-option has no dot either *)
Lemma split_source_ext_opt_no_dot : forall src : list Z,
  let '(name, ext, ext_opt, clean) := split_source src in existsb (Z.eqb 46) ext_opt = false.
Proof.
  intros src. unfold split_source.
  destruct (rfind_char 46 (basename src)) as [dot|] eqn:Hd; [|reflexivity].
  rewrite existsb_upper. apply rfind_char_spec in Hd. apply Hd.
Qed.

(* hence the README table holds for everything split_source hands to processor_of *)
Theorem split_source_processors_match : forall src : list Z,
  let '(name, ext, ext_opt, clean) := split_source src in
  let '(forced, kind, dtype) := processor_of name ext ext_opt in
  let '(ext_doc, kind_doc, flag_doc) := doc_disk_kind name ext ext_opt in
  kind = kind_doc /\ data_to_byte dtype = flag_doc /\ (dtype = 0 \/ dtype = 1) /\ 0 <= kind < 4 /\
  match forced with Some x => x | None => ext end = ext_doc.
Proof.
  intros src.
  pose proof (split_source_ext_no_dot src) as H1.
  pose proof (split_source_ext_opt_no_dot src) as H2.
  destruct (split_source src) as [[[name ext] ext_opt] clean].
  apply processors_match_documentation_nodot; assumption.
Qed.

Print Assumptions processors_match_documentation_nodot.
Print Assumptions processors_match_documentation_counterexample.
Print Assumptions split_source_ext_no_dot.
Print Assumptions split_source_ext_opt_no_dot.
Print Assumptions split_source_processors_match.
