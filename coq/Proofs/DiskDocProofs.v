(* Proofs/DiskDocProofs.v — the injector's dispatch agrees with the documented extension rules (C04). TOP statement fixed. *)
From Coq Require Import ZArith List Bool Lia ZifyBool String.
Require Import PyBase GenDisk DiskFacts Disk ThomsonDos PyFacts DiskDefs.
Import ListNotations.
Open Scope Z_scope.

(* TOP: kind, ASCII flag and stored extension chosen by the tool for (name, extension, extension
   with option) are those of the README table written in Spec.doc_disk_kind: AUTO.BAT and BAS ->
   BASIC program, binary; BAS,a -> BASIC program, ASCII, stored as BAS; BIN -> machine-language
   module; TXT -> text, ASCII; anything else -> BASIC data, binary *)
Theorem processors_match_documentation : forall (name ext ext_opt : list Z),
  existsb (Z.eqb 46) ext = false ->
  let '(forced, kind, dtype) := processor_of name ext ext_opt in
  let '(ext_doc, kind_doc, flag_doc) := doc_disk_kind name ext ext_opt in
  kind = kind_doc /\ data_to_byte dtype = flag_doc /\ (dtype = 0 \/ dtype = 1) /\ 0 <= kind < 4 /\
  match forced with Some x => x | None => ext end = ext_doc.
Admitted.

(* TOP: what split_source hands to processor_of never has a dot in the extension, and the three
   fields are upper-case images of parts of the base name *)
Theorem split_source_ext_no_dot : forall src : list Z,
  let '(name, ext, ext_opt, clean) := split_source src in existsb (Z.eqb 46) ext = false.
Admitted.
