(* Proofs/DReadExact.v — on a well-formed side the controller agrees with the Spec decoder (C07). *)
From Coq Require Import ZArith List Bool Lia ZifyBool.
Require Import PyBase GenDisk DiskFacts DiskFactsRead Disk ThomsonDos PyFacts DiskDefs DReadBase DReadChain DReadSafe.
Import ListNotations.
Open Scope Z_scope.
Ltac Zify.zify_post_hook ::= Z.to_euclidean_division_equations.

(* ---------- geometry ---------- *)
Lemma geo_sector sd i : side_geometry sd = true -> (i < 1280)%nat ->
  length (get_sec sd i) = 256%nat /\ Forall isbyte (get_sec sd i).
Proof.
  unfold side_geometry. intros H Hi. apply andb_prop in H. destruct H as [Hl Hs].
  apply Nat.eqb_eq in Hl. rewrite forallb_forall in Hs.
  assert (Hin : In (get_sec sd i) sd). { unfold get_sec. apply nth_In. unfold sector, dsector in *. lia. }
  apply Hs in Hin. apply andb_prop in Hin. destruct Hin as [H1 H2]. apply Nat.eqb_eq in H1.
  split; [exact H1|now apply bytesb_Forall].
Qed.
Lemma get_sec_nsec sd i : get_sec sd i = nsec sd i. Proof. reflexivity. Qed.
Lemma bat_index_is : bat_index = fat_sector. Proof. reflexivity. Qed.

(* ---------- the table ---------- *)
Lemma fat_length sd : side_geometry sd = true -> length (fat sd) = 160%nat.
Proof.
  intros Hg. unfold fat. destruct (geo_sector sd fat_sector Hg) as [Hl _]; [unfold fat_sector; lia|].
  rewrite get_sec_nsec in Hl. rewrite firstn_length, skipn_length, Hl. reflexivity.
Qed.
Lemma st_valid_is_valid v : st_valid v = true -> is_valid_status v = true.
Proof.
  unfold st_valid, st_next, st_last, st_reserved, st_free. rewrite is_valid_status_is. intros H.
  destruct (((160 <=? v) && (v <? 193)) || ((201 <=? v) && (v <? 254))) eqn:E; [lia|reflexivity].
Qed.
Lemma bat_get_fat sd : forallb st_valid (fat sd) = true -> bat_get sd = Ok (fat sd).
Proof.
  intros Hv. unfold bat_get. cbv zeta.
  assert (E : slice (Z.to_nat bat_first_index) (Z.to_nat bat_end_index) (get_sec sd bat_index) = fat sd) by reflexivity.
  rewrite E.
  assert (Hv' : forallb is_valid_status (fat sd) = true).
  { rewrite forallb_forall in *. intros x Hx. apply st_valid_is_valid. auto. }
  now rewrite Hv'.
Qed.
Lemma status_of_fat f b : length f = 160%nat -> 0 <= b < 160 -> status_of f b = Some (fstatus f b).
Proof. intros Hl Hb. unfold fstatus. apply status_of_inrange. unfold zlen. lia. Qed.

(* ---------- chain (Spec) versus walk (Model) ---------- *)
Lemma chain_head fuel f b seen r : chain fuel f b seen = Some r ->
  0 <= b < 160 /\ existsb (Z.eqb b) seen = false /\ (st_last (fstatus f b) || st_next (fstatus f b) = true).
Proof.
  destruct fuel as [|fuel]; [discriminate|]. cbn [chain].
  destruct (negb ((0 <=? b) && (b <? 160)) || existsb (Z.eqb b) seen) eqn:E; [discriminate|].
  apply orb_false_iff in E. destruct E as [E1 E2]. cbv zeta.
  destruct (st_last (fstatus f b)) eqn:El; [intros _; repeat split; auto; lia|].
  destruct (st_next (fstatus f b)) eqn:En; [intros _; repeat split; auto; lia|discriminate].
Qed.

Lemma not_free_reserved s : st_last s || st_next s = true -> ba_is_free s || ba_is_reserved s = false.
Proof. unfold st_last, st_next. rewrite ba_is_free_is, ba_is_reserved_is. lia. Qed.

Lemma chain_walk f : length f = 160%nat -> forall fuel b seen bs u,
  chain fuel f b seen = Some (bs, u) -> forall fuel2, (fuel <= fuel2)%nat ->
  walk fuel2 f (fstatus f b) (rev seen ++ [b]) = Some bs /\
  (exists pre lastb, bs = pre ++ [lastb] /\ status_of f lastb = Some (192 + u)) /\ 1 <= u <= 8.
Proof.
  intros Hl. induction fuel as [|fuel IH]; intros b seen bs u Hc fuel2 Hf; [discriminate|].
  pose proof (chain_head _ _ _ _ _ Hc) as (Hb & Hseen & Hs).
  cbn [chain] in Hc. rewrite Hseen in Hc.
  destruct (negb ((0 <=? b) && (b <? 160))) eqn:Eb; [lia|]. cbn [orb] in Hc. cbv zeta in Hc.
  destruct fuel2 as [|fuel2]; [lia|]. cbn [walk]. rewrite ba_is_last_is.
  destruct (st_last (fstatus f b)) eqn:El.
  - injection Hc as <- <-. unfold st_last in El.
    destruct ((192 <? fstatus f b) && (fstatus f b <? 201)) eqn:E2; [|lia].
    split; [reflexivity|]. split; [|lia]. exists (rev seen), b. split; [reflexivity|].
    rewrite (status_of_fat f b Hl Hb). f_equal. lia.
  - destruct (st_next (fstatus f b)) eqn:En; [|discriminate].
    unfold st_last in El. destruct ((192 <? fstatus f b) && (fstatus f b <? 201)) eqn:E2; [lia|].
    pose proof (chain_head _ _ _ _ _ Hc) as (Hb' & Hseen' & Hs').
    rewrite (status_of_fat f (fstatus f b) Hl Hb'). rewrite (not_free_reserved _ Hs'). cbn [orb].
    assert (Hnin : existsb (Z.eqb (fstatus f b)) (rev seen ++ [b]) = false).
    { apply existsb_eqb_notin. apply existsb_eqb_notin in Hseen'. intros Hin. apply Hseen'.
      apply in_app_or in Hin. destruct Hin as [Hin|[Hin|[]]]; [right; now apply in_rev|now left]. }
    rewrite Hnin.
    specialize (IH _ _ _ _ Hc fuel2 ltac:(lia)). cbn [rev] in IH. exact IH.
Qed.

Lemma file_chain_chain_of f first bs u : length f = 160%nat -> chain 161 f first [] = Some (bs, u) ->
  chain_of f first = Ok bs /\ last_status f bs = 192 + u /\ 1 <= u <= 8 /\ bs <> [] /\
  Forall (fun b => 0 <= b < 160) bs.
Proof.
  intros Hl Hc. pose proof (chain_head _ _ _ _ _ Hc) as (Hb & _ & Hs).
  destruct (chain_walk f Hl _ _ _ _ _ Hc walk_fuel ltac:(unfold walk_fuel; lia)) as (Hw & (pre & lastb & -> & Hlast) & Hu).
  cbn [rev app] in Hw.
  assert (Hco : chain_of f first = Ok (pre ++ [lastb])).
  { unfold chain_of. rewrite (status_of_fat f first Hl Hb), (not_free_reserved _ Hs), Hw. reflexivity. }
  split; [exact Hco|]. split; [|split; [exact Hu|split]].
  - unfold last_status. rewrite rev_app_distr. cbn [rev app]. now rewrite Hlast.
  - intros E. apply app_eq_nil in E. destruct E; discriminate.
  - destruct (chain_of_inv f first ltac:(lia)) as [E|(bs' & E & _ & Hok & _)]; rewrite E in Hco; [discriminate|].
    injection Hco as ->. apply blk_ok_range in Hok. rewrite Hl in Hok. exact Hok.
Qed.

Lemma chain_of_ok bat first : (length bat <= 160)%nat -> 0 <= first < zlen bat -> exists bs, chain_of bat first = Ok bs.
Proof.
  intros Hl Hf. destruct (chain_of_inv bat first Hl) as [E|(bs & E & _)]; [|now exists bs].
  exfalso. unfold chain_of in E. rewrite (status_of_inrange bat first 255 Hf) in E.
  destruct (_ || _); [discriminate|]. destruct (walk _ _ _ _); discriminate.
Qed.

(* ---------- sector addresses ---------- *)
Lemma sec_of_block_is b j : 0 <= b -> sec_of_block b (Z.of_nat j) = (Z.to_nat b * 8 + j)%nat.
Proof. intros Hb. unfold sec_of_block, sec_at. rewrite block_sector_is by lia. lia. Qed.

Lemma block_sector_geo sd b j : side_geometry sd = true -> 0 <= b < 160 -> (j < 8)%nat ->
  length (nsec sd (Z.to_nat b * 8 + j)) = 256%nat.
Proof. intros Hg Hb Hj. rewrite <- get_sec_nsec. apply geo_sector; [exact Hg|lia]. Qed.

Lemma flat_map_ext_in {A B} (f g : A -> list B) l : (forall a, In a l -> f a = g a) -> flat_map f l = flat_map g l.
Proof.
  induction l as [|a l IH]; intros H; cbn [flat_map]; [reflexivity|].
  rewrite (H a (or_introl eq_refl)), IH; [reflexivity|]. intros x Hx. apply H. now right.
Qed.

(* ---------- the content a chain stands for ---------- *)
Lemma block_sectors_len sd b k : side_geometry sd = true -> 0 <= b < 160 -> (k <= 8)%nat ->
  length (block_sectors sd b k) = (255 * k)%nat.
Proof.
  intros Hg Hb Hk. unfold block_sectors.
  assert (G : forall l, (forall j, In j l -> (j < 8)%nat) ->
              length (flat_map (fun j => firstn 255 (nsec sd (Z.to_nat b * 8 + j))) l) = (255 * length l)%nat).
  { induction l as [|j l IH]; intros Hl; cbn [flat_map length]; [lia|].
    rewrite app_length, firstn_length, (block_sector_geo sd b j Hg Hb), IH.
    - lia.
    - intros x Hx. apply Hl. now right.
    - apply Hl. now left. }
  rewrite G, seq_length; [reflexivity|]. intros j Hj. apply in_seq in Hj. lia.
Qed.

Lemma chain_content_len sd u lb : side_geometry sd = true -> 1 <= u <= 8 -> 0 <= lb <= 256 ->
  forall bs, bs <> [] -> Forall (fun b => 0 <= b < 160) bs ->
  zlen (chain_content sd bs u lb) = (8 * (zlen bs - 1) + u - 1) * 255 + lb.
Proof.
  intros Hg Hu Hlb. induction bs as [|b r IH]; intros Hne Hr; [congruence|].
  inversion Hr as [|? ? Hb Hr']; subst. destruct r as [|b' r'].
  - cbn [chain_content]. rewrite zlen_app. unfold zlen. rewrite block_sectors_len by (auto; lia).
    rewrite firstn_length, (block_sector_geo sd b _ Hg Hb) by lia. cbn [length]. lia.
  - change (chain_content sd (b :: b' :: r') u lb) with (block_sectors sd b 8 ++ chain_content sd (b' :: r') u lb).
    rewrite zlen_app, IH by (auto; discriminate). unfold zlen at 1. rewrite block_sectors_len by (auto; lia).
    rewrite !zlen_cons. lia.
Qed.

(* ---------- readFile's loops ---------- *)
Lemma splice_fill (w v : list Z) m k i j : i = length w -> j = (length w + k)%nat ->
  splice i j v (w ++ repeat 0 m) = w ++ v ++ repeat 0 (m - k).
Proof.
  intros -> ->. unfold splice. rewrite firstn_exact by reflexivity. rewrite Nat.max_r by lia.
  rewrite skipn_app, skipn_all2 by lia. cbn [app].
  replace (length w + k - length w)%nat with k by lia. now rewrite skipn_repeat.
Qed.

Definition take_of (smax lastsize : Z) (j : nat) : Z := if Z.of_nat j =? smax - 1 then lastsize else read_full_payload.

Lemma read_sectors_spec sd b smax lastsize N : forall n s w,
  (forall j, (s <= j < s + n)%nat ->
     0 <= take_of smax lastsize j <= 256 /\ length (get_sec sd (sec_of_block b (Z.of_nat j))) = 256%nat) ->
  read_sectors sd b smax lastsize s n (w ++ repeat 0 (N - length w)) (zlen w) =
  let W := flat_map (fun j => firstn (Z.to_nat (take_of smax lastsize j)) (get_sec sd (sec_of_block b (Z.of_nat j)))) (seq s n) in
  (w ++ W ++ repeat 0 (N - length w - length W), zlen w + zlen W).
Proof.
  induction n as [|n IH]; intros s w H; cbn [read_sectors seq flat_map].
  - cbv zeta. cbn [app length]. f_equal; [do 2 f_equal; lia|rewrite zlen_nil; lia].
  - cbv zeta. fold (take_of smax lastsize s). destruct (H s ltac:(lia)) as [Ht Hlen].
    set (t := take_of smax lastsize s) in *.
    set (v := firstn (Z.to_nat t) (get_sec sd (sec_of_block b (Z.of_nat s)))).
    assert (Hv : length v = Z.to_nat t). { unfold v. rewrite firstn_length. lia. }
    rewrite (splice_fill w v (N - length w) (Z.to_nat t)) by (unfold zlen; lia).
    replace (w ++ v ++ repeat 0 (N - length w - Z.to_nat t)) with ((w ++ v) ++ repeat 0 (N - length (w ++ v)))
      by (rewrite app_length, <- app_assoc; do 3 f_equal; lia).
    replace (zlen w + t) with (zlen (w ++ v)) by (rewrite zlen_app; unfold zlen; lia).
    rewrite IH by (intros j Hj; apply H; lia). cbv zeta. f_equal.
    + rewrite <- !app_assoc. do 4 f_equal. rewrite !app_length. lia.
    + rewrite !zlen_app. lia.
Qed.

Lemma read_full_block sd b N w : side_geometry sd = true -> 0 <= b < 160 ->
  read_sectors sd b read_full_sectors read_full_payload 0 (Z.to_nat read_full_sectors) (w ++ repeat 0 (N - length w)) (zlen w) =
  (w ++ block_sectors sd b 8 ++ repeat 0 (N - length w - length (block_sectors sd b 8)), zlen w + zlen (block_sectors sd b 8)).
Proof.
  intros Hg Hb.
  assert (Ht : forall j, take_of read_full_sectors read_full_payload j = 255).
  { intros j. unfold take_of. destruct (_ =? _); reflexivity. }
  change (Z.to_nat read_full_sectors) with 8%nat.
  rewrite read_sectors_spec.
  2:{ intros j Hj. rewrite Ht. split; [lia|]. rewrite sec_of_block_is, get_sec_nsec by lia.
      apply block_sector_geo; auto; lia. }
  cbv zeta.
  assert (E : flat_map (fun j => firstn (Z.to_nat (take_of read_full_sectors read_full_payload j))
                                   (get_sec sd (sec_of_block b (Z.of_nat j)))) (seq 0 8) = block_sectors sd b 8).
  { unfold block_sectors. apply flat_map_ext_in. intros j _. rewrite Ht, sec_of_block_is by lia. reflexivity. }
  rewrite E. reflexivity.
Qed.

Lemma read_last_block sd b u lb N w : side_geometry sd = true -> 0 <= b < 160 -> 1 <= u <= 8 -> 0 <= lb <= 256 ->
  read_sectors sd b u lb 0 (Z.to_nat u) (w ++ repeat 0 (N - length w)) (zlen w) =
  (w ++ chain_content sd [b] u lb ++ repeat 0 (N - length w - length (chain_content sd [b] u lb)),
   zlen w + zlen (chain_content sd [b] u lb)).
Proof.
  intros Hg Hb Hu Hlb.
  rewrite read_sectors_spec.
  2:{ intros j Hj. split.
      - unfold take_of, read_full_payload. destruct (_ =? _); lia.
      - rewrite sec_of_block_is, get_sec_nsec by lia. apply block_sector_geo; auto; lia. }
  cbv zeta.
  assert (E : flat_map (fun j => firstn (Z.to_nat (take_of u lb j)) (get_sec sd (sec_of_block b (Z.of_nat j)))) (seq 0 (Z.to_nat u))
              = chain_content sd [b] u lb).
  { cbn [chain_content]. replace (Z.to_nat u) with (S (Z.to_nat u - 1)) at 1 by lia.
    rewrite seq_S, flat_map_app. cbn [flat_map Nat.add]. rewrite app_nil_r. f_equal.
    - unfold block_sectors. apply flat_map_ext_in. intros j Hj. apply in_seq in Hj.
      unfold take_of, read_full_payload. destruct (_ =? _) eqn:E1; [lia|]. rewrite sec_of_block_is by lia. reflexivity.
    - unfold take_of. destruct (_ =? _) eqn:E1; [|lia]. rewrite sec_of_block_is by lia. reflexivity. }
  rewrite E. reflexivity.
Qed.

Lemma read_blocks_spec sd u lb N : side_geometry sd = true -> 1 <= u <= 8 -> 0 <= lb <= 256 ->
  forall bs w, Forall (fun b => 0 <= b < 160) bs ->
  read_blocks sd bs u lb (w ++ repeat 0 (N - length w)) (zlen w) =
  w ++ chain_content sd bs u lb ++ repeat 0 (N - length w - length (chain_content sd bs u lb)).
Proof.
  intros Hg Hu Hlb. induction bs as [|b r IH]; intros w Hr.
  - cbn [read_blocks chain_content app length]. now rewrite Nat.sub_0_r.
  - inversion Hr as [|? ? Hb Hr']; subst. destruct r as [|b' r'].
    + cbn [read_blocks]. rewrite read_last_block by assumption. reflexivity.
    + change (read_blocks sd (b :: b' :: r') u lb (w ++ repeat 0 (N - length w)) (zlen w)) with
        (let '(result', index') := read_sectors sd b read_full_sectors read_full_payload 0 (Z.to_nat read_full_sectors)
                                      (w ++ repeat 0 (N - length w)) (zlen w) in
         read_blocks sd (b' :: r') u lb result' index').
      rewrite read_full_block by assumption.
      change (chain_content sd (b :: b' :: r') u lb) with (block_sectors sd b 8 ++ chain_content sd (b' :: r') u lb).
      set (W := block_sectors sd b 8).
      replace (w ++ W ++ repeat 0 (N - length w - length W)) with ((w ++ W) ++ repeat 0 (N - length (w ++ W)))
        by (rewrite app_length, <- app_assoc; do 3 f_equal; lia).
      rewrite <- zlen_app. rewrite IH by assumption.
      rewrite <- !app_assoc. do 4 f_equal. rewrite !app_length. lia.
Qed.

Lemma read_blocks_exact sd u lb bs : side_geometry sd = true -> 1 <= u <= 8 -> 0 <= lb <= 256 ->
  Forall (fun b => 0 <= b < 160) bs ->
  read_blocks sd bs u lb (repeat 0 (length (chain_content sd bs u lb))) 0 = chain_content sd bs u lb.
Proof.
  intros Hg Hu Hlb Hr.
  pose proof (read_blocks_spec sd u lb (length (chain_content sd bs u lb)) Hg Hu Hlb bs [] Hr) as H.
  change (zlen (@nil Z)) with 0 in H. cbn [app length] in H. rewrite Nat.sub_0_r, Nat.sub_diag in H.
  cbn [repeat] in H. rewrite app_nil_r in H. exact H.
Qed.

(* ---------- the catalogue ---------- *)
Lemma cat_sectors_is : cat_sectors = map cat_sector (seq 0 14). Proof. reflexivity. Qed.
Lemma entry_offsets_is : entry_offsets = map (fun j => (32 * j)%nat) (seq 0 8). Proof. reflexivity. Qed.

Lemma flat_map_map {A B C} (f : B -> list C) (g : A -> B) l : flat_map f (map g l) = flat_map (fun x => f (g x)) l.
Proof. induction l as [|a l IH]; cbn [map flat_map]; [reflexivity|now rewrite IH]. Qed.
Lemma map_flat_map {A B C} (h : B -> C) (f : A -> list B) l : map h (flat_map f l) = flat_map (fun x => map h (f x)) l.
Proof. induction l as [|a l IH]; cbn [map flat_map]; [reflexivity|now rewrite map_app, IH]. Qed.

Lemma all_entries_is sd bat : all_entries sd bat = collect (map (fun d => entry_of_bytes d bat) (cat_entries sd)).
Proof.
  unfold all_entries, cat_entries. rewrite cat_sectors_is, entry_offsets_is, flat_map_map, map_flat_map. f_equal.
Qed.

Lemma cat_entries_geo sd : side_geometry sd = true ->
  Forall (fun d => length d = 32%nat /\ Forall isbyte d) (cat_entries sd).
Proof.
  intros Hg. apply Forall_forall. intros d Hd. unfold cat_entries in Hd.
  apply in_flat_map in Hd. destruct Hd as (k & Hk & Hd). apply in_map_iff in Hd. destruct Hd as (j & <- & Hj).
  apply in_seq in Hk. apply in_seq in Hj.
  destruct (geo_sector sd (cat_sector k) Hg) as [Hl Hb]; [unfold cat_sector; lia|]. rewrite get_sec_nsec in Hl, Hb.
  split; [rewrite firstn_length, skipn_length, Hl; lia|]. now apply Forall_firstn, Forall_skipn.
Qed.

(* ---------- one entry ---------- *)
Definition file_rel (sd : side) (e : centry) (f : dos_file) : Prop :=
  ce_status e = entry_ALIVE /\ entry_name e = d_name f /\ entry_ext e = d_ext f /\
  entry_kind e = kind_shown (d_kind f) /\ entry_is_ascii e = (d_flag f =? 255) /\
  ce_blocks e = d_blocks f /\ entry_size_blocks e = zlen (d_blocks f) /\
  entry_size_bytes e = zlen (d_content f) /\ entry_decodable e = true /\
  read_file sd e = Ok (d_content f) /\ extracted_name e = dos_label f.
Definition file_rel_strong (sd : side) (e : centry) (f : dos_file) : Prop :=
  file_rel sd e f /\ existsb (Z.eqb 0) (dos_label f) = false.

Lemma record_of_bytes_is d : record_of_bytes d =
  sanitize (firstn 8 d ++ firstn 3 (skipn 8 d) ++
            [kind_of_byte (nth 11 d 0); data_to_byte (if data_from_byte_is_ascii (nth 12 d 0) then 1 else 0); nth 13 d 0;
             Z.land (Z.shiftr (rec_last_of (nth 14 d 0) (nth 15 d 0)) 8) 255; Z.land (rec_last_of (nth 14 d 0) (nth 15 d 0)) 255]).
Proof. reflexivity. Qed.

Lemma map_id_forallb (p : Z -> bool) (g : Z -> Z) l : (forall c, p c = true -> g c = c) -> forallb p l = true -> map g l = l.
Proof.
  intros Hg. induction l as [|c l IH]; cbn [forallb map]; [reflexivity|]. intros H. apply andb_prop in H.
  destruct H as [Hc Hl]. now rewrite (Hg c Hc), (IH Hl).
Qed.
Lemma sanitize_printable l : forallb printable_char (firstn 11 l) = true -> sanitize l = l.
Proof.
  intros H. unfold sanitize. change (Z.to_nat rec_sanitized_count) with 11%nat.
  rewrite (map_id_forallb printable_char _ (firstn 11 l)); [apply firstn_skipn| |exact H].
  intros c Hc. rewrite rec_is_invalid_char_is. unfold printable_char in Hc. destruct (c <? 32) eqn:E; [lia|reflexivity].
Qed.

Lemma entry_of_bytes_live d f bs : nth 0 d 0 <> 255 -> nth 0 d 0 <> 0 -> chain_of f (nth 13 d 0) = Ok bs ->
  entry_of_bytes d f = Ok (mkEntry entry_ALIVE (record_of_bytes d) bs (nth 14 d 0 * 256 + nth 15 d 0) (last_status f bs)).
Proof.
  intros H1 H2 Hc. unfold entry_of_bytes. cbv zeta.
  change (znth0 0 d) with (nth 0 d 0). change (znth0 rec_first_index d) with (nth 13 d 0).
  change (znth0 rec_last_hi_index d) with (nth 14 d 0). change (znth0 rec_last_lo_index d) with (nth 15 d 0).
  rewrite entry_status_of_is. destruct (nth 0 d 0 =? 255) eqn:E1; [lia|]. destruct (nth 0 d 0 =? 0) eqn:E2; [lia|].
  change (1 =? entry_NEVER_USED) with false. cbv iota. rewrite Hc. cbn [bind]. rewrite rec_last_of_is. reflexivity.
Qed.

Lemma in_rstrip p x l : In x (rstrip_by p l) -> In x l.
Proof. intros H. destruct (rstrip_by_prefix p l) as (s & Hl & _). rewrite Hl. apply in_or_app. now left. Qed.

Lemma label_no_nul n x : forallb printable_char n = true -> forallb printable_char x = true ->
  existsb (Z.eqb 0) (map (fun c => if c =? 47 then 95 else c) (rstrip_py n ++ [46] ++ rstrip_py x)) = false.
Proof.
  intros Hn Hx. apply existsb_false_forall. intros y Hy. apply in_map_iff in Hy. destruct Hy as (c & <- & Hc).
  rewrite forallb_forall in Hn, Hx.
  assert (Hc' : c = 46 \/ printable_char c = true).
  { apply in_app_or in Hc. destruct Hc as [Hc|Hc]; [right; apply Hn; eapply in_rstrip; exact Hc|].
    apply in_app_or in Hc. destruct Hc as [[Hc|[]]|Hc]; [now left|right; apply Hx; eapply in_rstrip; exact Hc]. }
  unfold printable_char in Hc'. destruct (c =? 47) eqn:E; lia.
Qed.

Lemma entry_live sd f d bs u :
  side_geometry sd = true -> length f = 160%nat -> length d = 32%nat -> Forall isbyte d ->
  e_live d = true -> forallb printable_char (firstn 11 d) = true -> e_lastbytes d <= 255 ->
  file_chain f d = Some (bs, u) ->
  exists e, entry_of_bytes d f = Ok e /\
    file_rel_strong sd e (mkDos (e_name d) (e_ext d) (e_kind d) (e_flag d) bs (chain_content sd bs u (e_lastbytes d))).
Proof.
  intros Hg Hf Hd Hb Hlive Hp Hlb Hc.
  do 16 (destruct d as [|? d]; [discriminate Hd|]).
  rename z into d0, z0 into d1, z1 into d2, z2 into d3, z3 into d4, z4 into d5, z5 into d6, z6 into d7, z7 into d8,
         z8 into d9, z9 into d10, z10 into d11, z11 into d12, z12 into d13, z13 into d14, z14 into d15.
  unfold file_chain, e_first in Hc. cbn [nth] in Hc.
  destruct (file_chain_chain_of f d13 bs u Hf Hc) as (Hco & Hls & Hu & Hne & Hr).
  unfold e_live in Hlive. cbn [nth] in Hlive. unfold e_lastbytes in Hlb |- *. cbn [nth] in Hlb |- *.
  assert (Hb14 : isbyte d14). { rewrite Forall_forall in Hb. apply Hb. cbn [In]. tauto. }
  assert (Hb15 : isbyte d15). { rewrite Forall_forall in Hb. apply Hb. cbn [In]. tauto. }
  unfold isbyte in Hb14, Hb15.
  eexists. split.
  { apply entry_of_bytes_live; cbn [nth]; [lia|lia|exact Hco]. }
  cbn [nth]. rewrite Hls, record_of_bytes_is. cbn [firstn skipn nth app].
  rewrite sanitize_printable by exact Hp.
  pose proof Hp as Hp'. cbn [firstn forallb] in Hp'. unfold printable_char in Hp'.
  set (C := chain_content sd bs u (d14 * 256 + d15)).
  assert (HC : zlen C = (8 * (zlen bs - 1) + u - 1) * 255 + (d14 * 256 + d15)).
  { apply chain_content_len; auto; lia. }
  assert (Hdec : entry_decodable (mkEntry entry_ALIVE
            [d0; d1; d2; d3; d4; d5; d6; d7; d8; d9; d10; kind_of_byte d11;
             data_to_byte (if data_from_byte_is_ascii d12 then 1 else 0); d13;
             Z.land (Z.shiftr (rec_last_of d14 d15) 8) 255; Z.land (rec_last_of d14 d15) 255]
            bs (d14 * 256 + d15) (192 + u)) = true).
  { unfold entry_decodable, entry_name, entry_ext. cbn [ce_data firstn skipn app forallb]. lia. }
  assert (Hsz : entry_size_bytes (mkEntry entry_ALIVE
            [d0; d1; d2; d3; d4; d5; d6; d7; d8; d9; d10; kind_of_byte d11;
             data_to_byte (if data_from_byte_is_ascii d12 then 1 else 0); d13;
             Z.land (Z.shiftr (rec_last_of d14 d15) 8) 255; Z.land (rec_last_of d14 d15) 255]
            bs (d14 * 256 + d15) (192 + u)) = zlen C).
  { unfold entry_size_bytes. cbn [ce_blocks ce_last_status ce_last_sector].
    rewrite ba_usage_last, size_in_bytes_is, HC by lia.
    destruct (zlen bs =? 0) eqn:E0; [|lia]. destruct bs; [congruence|]. rewrite zlen_cons in E0. pose proof (zlen_nonneg bs). lia. }
  split; [|apply label_no_nul; cbn [d_name d_ext e_name e_ext firstn skipn forallb]; unfold printable_char; lia].
  unfold file_rel. cbn [d_name d_ext d_kind d_flag d_blocks d_content ce_status ce_blocks].
  unfold e_name, e_ext, e_kind, e_flag. cbn [firstn skipn nth].
  split; [reflexivity|]. split; [reflexivity|]. split; [reflexivity|]. split; [reflexivity|].
  split.
  { unfold entry_is_ascii. cbn [ce_data nth]. rewrite !data_from_byte_is_ascii_is, data_to_byte_is.
    destruct (d12 =? 255); reflexivity. }
  split; [reflexivity|]. split; [reflexivity|]. split; [exact Hsz|]. split; [exact Hdec|].
  split; [|reflexivity].
  unfold read_file. rewrite Hdec, Hsz. cbn [ce_status ce_blocks ce_last_status ce_last_sector].
  change (negb (entry_ALIVE =? entry_ALIVE)) with false. cbn [negb]. cbv iota.
  destruct bs as [|b0 bl]; [congruence|]. cbv zeta.
  rewrite usage_of_last_block_is. replace (192 + u - 192) with u by lia.
  destruct (u =? 0) eqn:E0; [lia|]. f_equal.
  unfold zlen. rewrite Nat2Z.id. apply read_blocks_exact; auto; lia.
Qed.

Lemma entry_dead f d : length f = 160%nat -> length d = 32%nat -> e_live d = false ->
  (nth 0 d 255 =? 255) || ((0 <=? e_first d) && (e_first d <? 160)) = true ->
  exists e, entry_of_bytes d f = Ok e /\ (ce_status e =? entry_ALIVE) = false.
Proof.
  intros Hf Hd Hlive Hslot. unfold entry_of_bytes. cbv zeta.
  change (znth0 0 d) with (nth 0 d 0). change (znth0 rec_first_index d) with (nth 13 d 0).
  rewrite (nth_indep d 0 255) by lia. rewrite (nth_indep d 0 255) in * by lia.
  unfold e_live in Hlive. unfold e_first in Hslot. rewrite entry_status_of_is.
  destruct (nth 0 d 255 =? 255) eqn:E1.
  - change (0 =? entry_NEVER_USED) with true. cbv iota. eexists. split; [reflexivity|reflexivity].
  - destruct (nth 0 d 255 =? 0) eqn:E2; [|lia].
    change (2 =? entry_NEVER_USED) with false. cbv iota.
    destruct (chain_of_ok f (nth 13 d 255)) as (bs & Hbs); [lia|unfold zlen; lia|].
    rewrite Hbs. cbn [bind]. eexists. split; [reflexivity|reflexivity].
Qed.

Lemma entries_exact sd f : side_geometry sd = true -> length f = 160%nat -> forall ds fs,
  Forall (fun d => length d = 32%nat /\ Forall isbyte d) ds ->
  forallb (fun e => (nth 0 e 255 =? 255) || ((0 <=? e_first e) && (e_first e <? 160))) ds = true ->
  forallb (fun e => negb (e_live e) || forallb printable_char (firstn 11 e)) ds = true ->
  forallb (fun e => negb (e_live e) || (e_lastbytes e <=? 255)) ds = true ->
  files_of_entries sd f ds = Some fs ->
  exists es, collect (map (fun d => entry_of_bytes d f) ds) = Ok es /\
             Forall2 (file_rel_strong sd) (filter (fun e => ce_status e =? entry_ALIVE) es) fs.
Proof.
  intros Hg Hf. induction ds as [|d ds IH]; intros fs Hgeo Hslot Hpr Hlb Hfs.
  - cbn [files_of_entries] in Hfs. injection Hfs as <-. exists []. split; [reflexivity|constructor].
  - inversion Hgeo as [|? ? [Hd Hb] Hgeo']; subst.
    cbn [forallb] in Hslot, Hpr, Hlb.
    apply andb_prop in Hslot. destruct Hslot as [Hs1 Hs2].
    apply andb_prop in Hpr. destruct Hpr as [Hp1 Hp2].
    apply andb_prop in Hlb. destruct Hlb as [Hl1 Hl2].
    cbn [files_of_entries] in Hfs. cbn [map collect].
    destruct (e_live d) eqn:Elive.
    + destruct (file_chain f d) as [[bs u]|] eqn:Ec; [|discriminate].
      destruct (files_of_entries sd f ds) as [fs'|] eqn:Efs; [|discriminate]. injection Hfs as <-.
      cbn [negb orb] in Hp1, Hl1.
      destruct (entry_live sd f d bs u Hg Hf Hd Hb Elive Hp1 ltac:(lia) Ec) as (e & He & Hrel).
      destruct (IH fs' Hgeo' Hs2 Hp2 Hl2 eq_refl) as (es & Hes & HF).
      rewrite He, Hes. exists (e :: es). split; [reflexivity|]. cbn [filter].
      destruct Hrel as [Hrel Hnul]. pose proof Hrel as (Hst & _). rewrite Hst.
      change (entry_ALIVE =? entry_ALIVE) with true. cbv iota. constructor; [split; assumption|exact HF].
    + destruct (entry_dead f d Hf Hd Elive Hs1) as (e & He & Hst).
      destruct (IH fs Hgeo' Hs2 Hp2 Hl2 Hfs) as (es & Hes & HF).
      rewrite He, Hes. exists (e :: es). split; [reflexivity|]. cbn [filter]. rewrite Hst. exact HF.
Qed.

Lemma Forall2_weaken {A B} (R1 R2 : A -> B -> Prop) l1 l2 :
  (forall a b, R1 a b -> R2 a b) -> Forall2 R1 l1 l2 -> Forall2 R2 l1 l2.
Proof. intros H. induction 1; constructor; auto. Qed.

Lemma Forall2_len {A B} (R : A -> B -> Prop) l1 l2 : Forall2 R l1 l2 -> length l1 = length l2.
Proof. induction 1; cbn [length]; auto. Qed.

(* ---------- one side ---------- *)
Lemma list_files_strong sd : tool_readable sd = true -> names_printable sd = true ->
  exists es fs, list_files sd = Ok es /\ dos_files sd = Some fs /\ Forall2 (file_rel_strong sd) es fs /\
                exists u, compute_usage sd = Ok u.
Proof.
  intros Ht Hn. unfold tool_readable in Ht. apply andb_prop in Ht. destruct Ht as [Hck Hslot].
  unfold fsck_read in Hck. apply andb_prop in Hck. destruct Hck as [Hck Hfiles].
  apply andb_prop in Hck. destruct Hck as [Hck _]. apply andb_prop in Hck. destruct Hck as [Hck _].
  apply andb_prop in Hck. destruct Hck as [Hg Hvalid].
  destruct (dos_files sd) as [fs|] eqn:Edos; [|discriminate].
  apply andb_prop in Hfiles. destruct Hfiles as [_ Hlb].
  pose proof (fat_length sd Hg) as Hfl.
  unfold dos_files in Edos. unfold slots_in_table in Hslot. unfold names_printable in Hn.
  destruct (entries_exact sd (fat sd) Hg Hfl (cat_entries sd) fs (cat_entries_geo sd Hg) Hslot Hn Hlb Edos) as (es & Hes & HF).
  exists (filter (fun e => ce_status e =? entry_ALIVE) es), fs.
  split; [|split; [reflexivity|split; [exact HF|]]].
  - unfold list_files. rewrite (bat_get_fat sd Hvalid). cbn [bind]. rewrite all_entries_is, Hes. reflexivity.
  - unfold compute_usage. rewrite (bat_get_fat sd Hvalid). cbn [bind]. eexists. reflexivity.
Qed.

(* ---------- the enumerator / extractor over one side ---------- *)
Lemma side_files_exact verbose extract p sd i dir : existsb (Z.eqb 0) dir = false ->
  forall es fs, Forall2 (file_rel_strong sd) es fs -> forall s text fx lg,
  exists text' s', side_files verbose extract p sd i dir es s text fx lg =
    (text', fx ++ (if extract then map (fun f => WriteFile (path_join dir (dos_label f)) (d_content f)) fs else []), s',
     lg ++ map (if extract then dos_item i else dos_item_listed i) fs, None).
Proof.
  intros Hdir. induction 1 as [|e f es fs Hrel HF IH]; intros s text fx lg; cbn [side_files].
  - exists text, s. destruct extract; cbn [map]; rewrite !app_nil_r; reflexivity.
  - destruct Hrel as [(Hst & Hname & Hext & Hkind & Hasc & Hbl & Hsb & Hsz & Hdec & Hread & Hlabel) Hnul].
    rewrite Hdec. cbn [negb]. destruct (on_begin_file _ _ _ _ _ _ _ _) as [o1 s1]. destruct extract.
    + rewrite Hread.
      assert (Hp : existsb (Z.eqb 0) (path_join dir (extracted_name e)) = false).
      { apply existsb_eqb_notin. intros Hin. apply path_join_in in Hin. destruct Hin as [Hin|[Hin|Hin]].
        - apply existsb_eqb_notin in Hdir. auto.
        - discriminate.
        - rewrite Hlabel in Hin. apply existsb_eqb_notin in Hnul. auto. }
      rewrite Hp. destruct (on_end_file _ _ _ _ _ _) as [o2 s2].
      destruct (IH s2 ((text ++ o1) ++ o2) (fx ++ [WriteFile (path_join dir (extracted_name e)) (d_content f)])
                  (lg ++ [LFile (Z.of_nat i) (entry_name e) (entry_ext e) (entry_kind e) (entry_is_ascii e) true
                                (entry_size_bytes e) (entry_size_blocks e) (d_content f)])) as (text' & s' & Hsf).
      rewrite Hsf. exists text', s'. rewrite <- !app_assoc. cbn [map app]. unfold dos_item at 2.
      rewrite Hlabel, Hname, Hext, Hkind, Hasc, Hsz, Hsb. reflexivity.
    + destruct (on_end_file _ _ _ _ _ _) as [o2 s2].
      destruct (IH s2 ((text ++ o1) ++ o2) fx
                  (lg ++ [LFile (Z.of_nat i) (entry_name e) (entry_ext e) (entry_kind e) (entry_is_ascii e) true
                                (entry_size_bytes e) (entry_size_blocks e) []])) as (text' & s' & Hsf).
      rewrite Hsf. exists text', s'. rewrite <- !app_assoc. cbn [map app]. unfold dos_item_listed at 2.
      rewrite Hname, Hext, Hkind, Hasc, Hsz, Hsb. reflexivity.
Qed.

Lemma side_dir_no_nul target i : existsb (Z.eqb 0) target = false -> existsb (Z.eqb 0) (side_dir target i) = false.
Proof.
  intros H. apply existsb_eqb_notin. intros Hin. unfold side_dir in Hin. apply path_join_in in Hin.
  destruct Hin as [Hin|[Hin|Hin]].
  - apply existsb_eqb_notin in H. auto.
  - discriminate.
  - apply in_app_or in Hin. destruct Hin as [Hin|Hin].
    + cbv in Hin. intuition discriminate.
    + pose proof (dec_digits (Z.of_nat i) ltac:(lia)) as Hd. rewrite Forall_forall in Hd. apply Hd in Hin.
      unfold is_digit in Hin. lia.
Qed.

Definition side_ok (sd : side) (fs : list dos_file) : Prop :=
  exists es, list_files sd = Ok es /\ Forall2 (file_rel_strong sd) es fs /\ exists u, compute_usage sd = Ok u.

Lemma read_sides_exact verbose extract p target : existsb (Z.eqb 0) target = false ->
  forall sides files, Forall2 side_ok sides files -> forall i s text fx lg,
  d_status (read_sides verbose extract p target sides i s text fx lg) = 0 /\
  d_crash (read_sides verbose extract p target sides i s text fx lg) = None /\
  d_effects (read_sides verbose extract p target sides i s text fx lg) =
    fx ++ (if extract then flat_map (side_effects target) (combine (seq i (length files)) files) else []) /\
  d_log (read_sides verbose extract p target sides i s text fx lg) =
    lg ++ flat_map (if extract then side_log else side_log_listed) (combine (seq i (length files)) files).
Proof.
  intros Ht. induction 1 as [|sd fs sides files Hok HF IH]; intros i s text fx lg; cbn [read_sides].
  - destruct (on_done verbose p s) as [o s']. cbn [d_status d_crash d_effects d_log length seq combine flat_map].
    destruct extract; rewrite !app_nil_r; auto.
  - destruct (on_begin_side verbose p s (Z.of_nat i)) as [o0 s0].
    destruct Hok as (es & Hl & Hrel & u & Hu). rewrite Hl.
    destruct (side_files_exact verbose extract p sd i (side_dir target i) (side_dir_no_nul target i Ht) es fs Hrel
                s0 (text ++ o0) (if extract then fx ++ [MkDir (side_dir target i)] else fx) (lg ++ [LSide (Z.of_nat i)]))
      as (text1 & s1 & Hsf).
    rewrite Hsf, Hu. destruct (on_end_side verbose p s1 u) as [o2 s2].
    match goal with |- context [read_sides _ _ _ _ sides (S i) s2 ?t ?f ?l] =>
      destruct (IH (S i) s2 t f l) as (H1 & H2 & H3 & H4) end.
    rewrite H1, H2, H3, H4. split; [reflexivity|]. split; [reflexivity|].
    cbn [length seq combine flat_map]. unfold side_effects at 2. cbn [fst snd].
    destruct extract.
    + split; [rewrite <- !app_assoc; reflexivity|]. unfold side_log at 2. cbn [fst snd].
      rewrite <- !app_assoc. reflexivity.
    + split; [rewrite !app_nil_r; reflexivity|]. unfold side_log_listed at 2. cbn [fst snd].
      rewrite <- !app_assoc. reflexivity.
Qed.

Lemma image_files img : forallb tool_readable img = true -> forallb names_printable img = true ->
  exists files, map dos_files img = map Some files /\ Forall2 side_ok img files.
Proof.
  induction img as [|sd img IH]; cbn [forallb]; intros Ht Hn.
  - exists []. split; [reflexivity|constructor].
  - apply andb_prop in Ht. destruct Ht as [Ht1 Ht2]. apply andb_prop in Hn. destruct Hn as [Hn1 Hn2].
    destruct (IH Ht2 Hn2) as (files & Hm & HF).
    destruct (list_files_strong sd Ht1 Hn1) as (es & fs & Hl & Hd & Hrel & Hu).
    exists (fs :: files). split; [cbn [map]; now rewrite Hd, Hm|]. constructor; [|exact HF].
    exists es. auto.
Qed.
