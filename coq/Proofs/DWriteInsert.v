(* Proofs/DWriteInsert.v — Spec-level consequences of storing one file on free blocks and one free slot. *)
From Coq Require Import ZArith List Bool Lia ZifyBool.
Require Import PyBase GenDisk DiskFacts DiskFactsWrite Disk ThomsonDos DiskDefs.
Require Import DWriteList DWriteLens DWriteSpec DWriteAlloc DWriteSlices DWriteData DWriteCat DWriteModel.
Import ListNotations.
Open Scope Z_scope.
Ltac Zify.zify_post_hook ::= Z.to_euclidean_division_equations.

Lemma wi_foe_app_inv sd f a b fs : files_of_entries sd f (a ++ b) = Some fs ->
  exists fa fb, files_of_entries sd f a = Some fa /\ files_of_entries sd f b = Some fb /\ fs = fa ++ fb.
Proof.
  rewrite ws_foe_app. destruct (files_of_entries sd f a) as [fa|]; [|discriminate].
  destruct (files_of_entries sd f b) as [fb|]; [|discriminate].
  intros H. inversion H. now exists fa, fb.
Qed.

Lemma wi_same_length (a b : list Z) : NoDup a -> NoDup b -> (forall x, In x a <-> In x b) -> length a = length b.
Proof.
  intros Ha Hb H. apply Nat.le_antisymm; apply NoDup_incl_length; try assumption; intros x Hx; now apply H.
Qed.

Section Insert.
Variables (sd sd' : side) (alloc bat1 : list Z) (u lb : Z) (es1 es2 : list (list Z)) (old rec content : list Z).
Let f := fat sd.
Hypothesis Hread : fsck_read sd = true.
Hypothesis Hg' : geom sd'.
Hypothesis Hfat' : fat sd' = bat1.
Hypothesis Hcat : cat_entries sd = es1 ++ old :: es2.
Hypothesis Hcat' : cat_entries sd' = es1 ++ rec :: es2.
Hypothesis Hlive1 : forallb e_live es1 = true.
Hypothesis Hold : e_live old = false.
Hypothesis Hnd : NoDup alloc.
Hypothesis Hal : forall x, In x alloc -> 0 <= x < 160 /\ st_free (fstatus f x) = true.
Hypothesis Hne : alloc <> [].
Hypothesis Htab : table_after f alloc u bat1.
Hypothesis Hu : 1 <= u <= 8.
Hypothesis Hdata : forall i, ~ touched alloc i -> i <> 321%nat -> ~ (322 <= i <= 335)%nat -> nsec sd' i = nsec sd i.
Hypothesis Hcc : chain_content sd' alloc u lb = content.
Hypothesis Hrec_live : e_live rec = true.
Hypothesis Hrec_first : e_first rec = nth 0 alloc 0.
Hypothesis Hrec_last : e_lastbytes rec = lb.
Hypothesis Hlb : 0 <= lb <= 255.

Let Hparts := ws_fsck_read_elim sd Hread.

Lemma wi_geom : geom sd.
Proof. apply wn_geom_iff. apply Hparts. Qed.
Lemma wi_flen : length f = 160%nat.
Proof. apply wn_fat_length, wi_geom. Qed.
Lemma wi_res40 : st_reserved (fstatus f 40) = true.
Proof. apply Hparts. Qed.
Lemma wi_res41 : st_reserved (fstatus f 41) = true.
Proof. apply Hparts. Qed.

Lemma wi_len1 : length bat1 = 160%nat.
Proof. apply Htab. Qed.

Lemma wi_out x : 0 <= x < 160 -> ~ In x alloc -> fstatus bat1 x = fstatus f x.
Proof.
  intros Hx Hn. destruct Htab as (_ & Bout & _). unfold fstatus. apply Bout.
  now replace (Z.of_nat (Z.to_nat x)) with x by lia.
Qed.
Lemma wi_in i : (i < length alloc)%nat -> fstatus bat1 (nth i alloc 0) = link alloc u i.
Proof. intros Hi. destruct Htab as (_ & _ & Bin). unfold fstatus. now apply Bin. Qed.

Lemma wi_link_used i : (i < length alloc)%nat -> used_st (link alloc u i) = true.
Proof.
  intros Hi. unfold link. destruct (Z.of_nat (length alloc) - 1 <=? Z.of_nat i) eqn:E.
  - unfold used_st, st_next, st_last. lia.
  - assert (Hi' : (S i < length alloc)%nat) by lia.
    destruct (Hal _ (nth_In alloc 0 Hi')) as (Hr & _). unfold used_st, st_next, st_last. lia.
Qed.
Lemma wi_in_used x : In x alloc -> used_st (fstatus bat1 x) = true.
Proof.
  intros Hx. destruct (In_nth _ _ 0 Hx) as (i & Hi & <-). rewrite wi_in by exact Hi. now apply wi_link_used.
Qed.

Lemma wi_used_not_alloc x : used_st (fstatus f x) = true -> ~ In x alloc.
Proof.
  intros Hus Hx. destruct (Hal x Hx) as (_ & Hf). apply ws_used_not_free in Hus. destruct Hus as (Hnf & _). congruence.
Qed.
Lemma wi_reserved_not_alloc x : st_reserved (fstatus f x) = true -> ~ In x alloc.
Proof.
  intros Hres Hx. destruct (Hal x Hx) as (_ & Hf). unfold st_reserved, st_free in *. lia.
Qed.

Lemma wi_fat_agree : fat_agree f bat1.
Proof. intros b Hb Hus. apply wi_out; [exact Hb|now apply wi_used_not_alloc]. Qed.

Lemma wi_data_agree : data_agree f sd sd'.
Proof.
  intros b j Hb Hus Hj. apply Hdata.
  - intros (b' & j' & Hb' & Hj' & E). destruct (Hal b' Hb') as (Hr' & _).
    assert (b' = b) by lia. subst b'. now apply (wi_used_not_alloc b).
  - intros E. assert (b = 40) by lia. subst b. pose proof wi_res40 as H.
    apply ws_used_not_free in Hus. destruct Hus as (_ & Hus). fold f in H. congruence.
  - intros E. assert (Hb' : b = 40 \/ b = 41) by lia.
    apply ws_used_not_free in Hus. destruct Hus as (_ & Hus).
    destruct Hb' as [-> | ->]; [pose proof wi_res40 as H|pose proof wi_res41 as H]; fold f in H; congruence.
Qed.

Definition new_file : dos_file := mkDos (e_name rec) (e_ext rec) (e_kind rec) (e_flag rec) alloc content.

Lemma wi_new_chain : file_chain bat1 rec = Some (alloc, u).
Proof.
  unfold file_chain. rewrite Hrec_first.
  assert (Hlen : (1 <= length alloc)%nat) by (destruct alloc; [congruence|cbn; lia]).
  assert (Hr : forall x, In x alloc -> 0 <= x < 160) by (intros x Hx; apply Hal; exact Hx).
  assert (Hle : (length alloc <= 160)%nat) by (apply wl_pigeon; [exact Hnd|intros x Hx; specialize (Hr x Hx); lia]).
  apply (ws_chain_alloc bat1 alloc u Hnd Hr Hu) with (m := length alloc) (i := 0%nat); try lia.
  - intros i Hi. rewrite wi_in by lia. unfold link.
    destruct (Z.of_nat (length alloc) - 1 <=? Z.of_nat i) eqn:E; [lia|reflexivity].
  - rewrite wi_in by lia. unfold link.
    destruct (Z.of_nat (length alloc) - 1 <=? Z.of_nat (length alloc - 1)) eqn:E; [reflexivity|lia].
Qed.

Lemma wi_files : exists fs1 fs2,
  files_of_entries sd f es1 = Some fs1 /\ files_of_entries sd f es2 = Some fs2 /\
  dos_files sd = Some (fs1 ++ fs2) /\ dos_files sd' = Some (fs1 ++ new_file :: fs2) /\
  length fs1 = length es1.
Proof.
  destruct Hparts as (_ & _ & _ & _ & fs & Hfs & _).
  unfold dos_files in Hfs. fold f in Hfs. rewrite Hcat in Hfs.
  destruct (wi_foe_app_inv _ _ _ _ _ Hfs) as (fs1 & fs2 & H1 & H2 & ->).
  cbn [files_of_entries] in H2. rewrite Hold in H2.
  exists fs1, fs2. split; [exact H1|]. split; [exact H2|]. split.
  - unfold dos_files. fold f. rewrite Hcat, ws_foe_app, H1. cbn [files_of_entries]. now rewrite Hold, H2.
  - split; [|now apply (ws_foe_live_all sd f)].
    unfold dos_files. rewrite Hfat', Hcat', ws_foe_app.
    rewrite (ws_foe_stable sd sd' f bat1 wi_fat_agree wi_data_agree _ _ H1).
    cbn [files_of_entries]. rewrite Hrec_live, wi_new_chain.
    rewrite (ws_foe_stable sd sd' f bat1 wi_fat_agree wi_data_agree _ _ H2).
    rewrite Hrec_last, Hcc. reflexivity.
Qed.

Lemma wi_old_blocks fs1 fs2 : files_of_entries sd f es1 = Some fs1 -> files_of_entries sd f es2 = Some fs2 ->
  forall x, In x (flat_map d_blocks (fs1 ++ fs2)) -> in_used f x.
Proof.
  intros H1 H2 x Hx. rewrite flat_map_app in Hx. apply in_app_or in Hx.
  pose proof (ws_foe_blocks_used sd f _ _ H1) as U1. pose proof (ws_foe_blocks_used sd f _ _ H2) as U2.
  rewrite Forall_forall in U1, U2. destruct Hx as [Hx|Hx]; [now apply U1|now apply U2].
Qed.

Lemma wi_valid : forallb st_valid bat1 = true.
Proof.
  apply forallb_forall. intros s Hs. destruct (In_nth _ _ 255 Hs) as (k & Hk & <-). rewrite wi_len1 in Hk.
  replace (nth k bat1 255) with (fstatus bat1 (Z.of_nat k)) by (unfold fstatus; now rewrite Nat2Z.id).
  destruct (in_dec Z.eq_dec (Z.of_nat k) alloc) as [Hin|Hnin].
  - pose proof (wi_in_used _ Hin) as Hus. unfold st_valid. unfold used_st in Hus.
    rewrite Hus. reflexivity.
  - rewrite wi_out by (try exact Hnin; lia).
    destruct Hparts as (_ & Hv & _). fold f in Hv. rewrite forallb_forall in Hv. apply Hv.
    unfold fstatus. rewrite Nat2Z.id. apply nth_In. rewrite wi_flen. exact Hk.
Qed.

Lemma wi_nodup fs1 fs2 : files_of_entries sd f es1 = Some fs1 -> files_of_entries sd f es2 = Some fs2 ->
  no_dup (flat_map d_blocks (fs1 ++ fs2)) = true ->
  no_dup (flat_map d_blocks (fs1 ++ new_file :: fs2)) = true.
Proof.
  intros H1 H2 Hn. apply ws_no_dup_iff in Hn. apply ws_no_dup_iff.
  pose proof (wi_old_blocks fs1 fs2 H1 H2) as Hused.
  rewrite flat_map_app in *. cbn [flat_map d_blocks new_file].
  apply wl_NoDup_app in Hn. destruct Hn as (N1 & N2 & N12).
  assert (Hdisj : forall x, In x (flat_map d_blocks fs1) \/ In x (flat_map d_blocks fs2) -> ~ In x alloc).
  { intros x Hx. apply wi_used_not_alloc. apply Hused. apply in_or_app. exact Hx. }
  apply wl_NoDup_app. split; [exact N1|]. split.
  - apply wl_NoDup_app. split; [exact Hnd|]. split; [exact N2|].
    intros x Hx Hx2. apply (Hdisj x); [now right|exact Hx].
  - intros x Hx Hx2. apply in_app_or in Hx2. destruct Hx2 as [Hx2|Hx2].
    + apply (Hdisj x); [now left|exact Hx2].
    + now apply (N12 x).
Qed.

Lemma wi_entries_forall (p : list Z -> bool) :
  forallb p (cat_entries sd) = true -> p rec = true -> forallb p (cat_entries sd') = true.
Proof.
  rewrite Hcat, Hcat', !forallb_app. cbn [forallb]. intros H Hr.
  apply andb_prop in H. destruct H as (H1 & H2). apply andb_prop in H2. destruct H2 as (_ & H2).
  now rewrite H1, Hr, H2.
Qed.

Lemma wi_fsck_read' : fsck_read sd' = true.
Proof.
  destruct wi_files as (fs1 & fs2 & H1 & H2 & Hd & Hd' & _).
  destruct Hparts as (_ & _ & _ & _ & fs & Hfs & Hnd0 & Hlast).
  rewrite Hd in Hfs. inversion Hfs; subst fs.
  apply (ws_fsck_read_intro sd' (fs1 ++ new_file :: fs2)).
  - now apply wn_geom_iff.
  - rewrite Hfat'. exact wi_valid.
  - rewrite Hfat', wi_out by (try lia; apply wi_reserved_not_alloc, wi_res40). exact wi_res40.
  - rewrite Hfat', wi_out by (try lia; apply wi_reserved_not_alloc, wi_res41). exact wi_res41.
  - exact Hd'.
  - now apply wi_nodup.
  - apply wi_entries_forall; [exact Hlast|]. rewrite Hrec_live, Hrec_last. cbn [negb orb]. lia.
Qed.

Lemma wi_slots' : slots_in_table sd = true -> slots_in_table sd' = true.
Proof.
  unfold slots_in_table. intros H. apply wi_entries_forall; [exact H|].
  rewrite Hrec_first. assert (Hin : In (nth 0 alloc 0) alloc) by (apply nth_In; destruct alloc; [congruence|cbn; lia]).
  destruct (Hal _ Hin) as (Hr & _). lia.
Qed.

Lemma wi_names' : forallb printable_char (firstn 11 rec) = true -> names_printable sd = true -> names_printable sd' = true.
Proof.
  unfold names_printable. intros Hp H. apply wi_entries_forall; [exact H|]. rewrite Hp. apply orb_true_r.
Qed.

Lemma wi_strict' : nth 0 (nsec sd' fat_sector) 255 = nth 0 (nsec sd fat_sector) 255 ->
  forallb (fun c => c =? 255) (skipn 16 rec) = true ->
  fsck_strict sd = true -> fsck_strict sd' = true.
Proof.
  intros Hb0 Hpad Hs. destruct (ws_fsck_strict_elim sd Hs) as (_ & H0 & Hsame & Hff).
  destruct wi_files as (fs1 & fs2 & H1 & H2 & Hd & Hd' & _).
  specialize (Hsame _ Hd). fold f in Hsame. rewrite ws_same_set_iff in Hsame.
  pose proof (wi_old_blocks fs1 fs2 H1 H2) as Hused.
  apply (ws_fsck_strict_intro sd' (fs1 ++ new_file :: fs2)).
  - exact wi_fsck_read'.
  - now rewrite Hb0.
  - exact Hd'.
  - rewrite Hfat'. apply ws_same_set_iff. intros x.
    assert (Hnew : In x (flat_map d_blocks (fs1 ++ new_file :: fs2)) <-> In x (flat_map d_blocks (fs1 ++ fs2)) \/ In x alloc).
    { rewrite !flat_map_app. cbn [flat_map d_blocks new_file]. rewrite !in_app_iff. tauto. }
    rewrite Hnew, ws_used_blocks_iff. split.
    + intros (Hr & Hnf & Hnr). destruct (in_dec Z.eq_dec x alloc) as [Hin|Hnin]; [right; exact Hin|left].
      apply (proj1 (Hsame x)). apply (proj2 (ws_used_blocks_iff f x)). rewrite <- (wi_out x Hr Hnin). split; [exact Hr|split; assumption].
    + intros [Hx|Hx].
      * pose proof (Hused x Hx) as (Hr & Hus). clear Hsame. rewrite (wi_out x Hr (wi_used_not_alloc x Hus)).
        apply ws_used_not_free in Hus. split; [exact Hr|exact Hus].
      * destruct (Hal x Hx) as (Hr & _). split; [exact Hr|]. apply ws_used_not_free. now apply wi_in_used.
  - apply wi_entries_forall; [exact Hff|]. rewrite Hpad. apply orb_true_r.
Qed.

Lemma wi_free_count : free_count sd' = free_count sd - zlen alloc.
Proof.
  unfold free_count. rewrite Hfat'. fold f. rewrite <- !(wa_free_blocks_count _ 0).
  assert (E : length (free_blocks f 0) = length (free_blocks bat1 0 ++ alloc)).
  { apply wi_same_length.
    - apply wa_free_blocks_nodup.
    - apply wl_NoDup_app. split; [apply wa_free_blocks_nodup|]. split; [exact Hnd|].
      intros x Hx Hx2. apply wa_free_in in Hx. destruct Hx as (_ & Hx).
      apply wi_in_used, ws_used_not_free in Hx2. destruct Hx2 as (Hx2 & _). congruence.
    - intros x. rewrite in_app_iff, !wa_free_in. unfold zlen. rewrite wi_flen, wi_len1. split.
      + intros (Hr & Hf). destruct (in_dec Z.eq_dec x alloc) as [Hin|Hnin]; [now right|left].
        split; [exact Hr|]. now rewrite wi_out by (try exact Hnin; lia).
      + intros [(Hr & Hf)|Hx].
        * split; [exact Hr|]. rewrite <- wi_out; [exact Hf|lia|].
          intros Hx. apply wi_in_used, ws_used_not_free in Hx. destruct Hx as (Hx & _). congruence.
        * destruct (Hal x Hx) as (Hr & Hf). split; [lia|exact Hf]. }
  unfold zlen. rewrite E, app_length. lia.
Qed.

Lemma wi_all :
  forallb printable_char (firstn 11 rec) = true -> forallb (fun c => c =? 255) (skipn 16 rec) = true ->
  nth 0 (nsec sd' fat_sector) 255 = nth 0 (nsec sd fat_sector) 255 ->
  fsck_read sd' = true /\ (slots_in_table sd = true -> slots_in_table sd' = true) /\
  (names_printable sd = true -> names_printable sd' = true) /\
  (fsck_strict sd = true -> fsck_strict sd' = true) /\
  free_count sd' = free_count sd - zlen alloc /\
  exists fs1 fs2, dos_files sd = Some (fs1 ++ fs2) /\
    dos_files sd' = Some (fs1 ++ mkDos (e_name rec) (e_ext rec) (e_kind rec) (e_flag rec) alloc content :: fs2).
Proof.
  intros Hp Hpad Hb0. split; [exact wi_fsck_read'|]. split; [exact wi_slots'|]. split; [exact (wi_names' Hp)|].
  split; [exact (wi_strict' Hb0 Hpad)|]. split; [exact wi_free_count|].
  destruct wi_files as (fs1 & fs2 & _ & _ & Hd & Hd' & _). exists fs1, fs2. split; [exact Hd|exact Hd'].
Qed.

End Insert.


