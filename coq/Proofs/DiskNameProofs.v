(* Proofs/DiskNameProofs.v — a catalogue name that cannot be encoded is refused before anything is touched
   (the defect F17 repaired in /repo: the record used to be built after the table had been committed). *)
From Coq Require Import ZArith List Bool Lia.
Require Import PyBase GenDisk Disk.
Import ListNotations.
Open Scope Z_scope.

Definition encodable (s : list Z) : bool := forallb (fun c => (0 <=? c) && (c <? 128)) s.

Lemma bytes_from_str_unencodable s size : encodable s = false -> bytes_from_str s size = Err EValue.
Proof. unfold encodable, bytes_from_str. intros H. now rewrite H. Qed.

Lemma new_record_unencodable name ext kind dtype first last :
  encodable (upper_ascii name) && encodable (upper_ascii ext) = false ->
  exists e, new_record name ext kind dtype first last = Err e.
Proof.
  intros H. unfold new_record.
  destruct (encodable (upper_ascii name)) eqn:En.
  - cbn [andb] in H. unfold bytes_from_str at 1. fold (encodable (upper_ascii name)). rewrite En. cbn [bind].
    rewrite (bytes_from_str_unencodable _ _ H). cbn [bind]. now exists EValue.
  - rewrite (bytes_from_str_unencodable _ _ En). cbn [bind]. now exists EValue.
Qed.

(* whatever the side, the content and the free space: the side is returned untouched, and the call is refused *)
Theorem write_unencodable_name_changes_nothing : forall (sd : side) (content name ext : list Z) (kind dtype : Z),
  encodable (upper_ascii name) && encodable (upper_ascii ext) = false ->
  fst (write_file sd content name ext kind dtype) = sd /\
  exists e, snd (write_file sd content name ext kind dtype) = Err e.
Proof.
  intros sd content name ext kind dtype H. unfold write_file.
  destruct (bat_get sd) as [bat|e]; [|split; [reflexivity|now exists e]].
  destruct (compute_required_slots (zlen content) payload_per_sector) as [sectors0 last0].
  destruct (if zlen content =? 0 then (1, 0) else (sectors0, last0)) as [sectors last_sector].
  destruct (compute_required_slots sectors sectors_per_block) as [nblocks last_block].
  cbv zeta.
  match goal with |- context [if ?c then _ else _] => destruct c end; [split; [reflexivity|now exists EValue]|].
  destruct (nth_error _ 0) as [first|]; [|split; [reflexivity|now exists EIndex]].
  destruct (new_record_unencodable name ext kind dtype first last_sector H) as [e He]. rewrite He.
  split; [reflexivity|now exists e].
Qed.
