#!/bin/sh
# dev helper: dbg.sh <file.v> <line> — show the proof state after <line> lines of <file.v>
cd "$(dirname "$0")"
head -n "$2" "$1" > /tmp/dbg_$$.v
echo "Show." >> /tmp/dbg_$$.v
coqc -Q Py "" -Q Gen "" -Q GenFacts "" -Q Model "" -Q Spec "" -Q Proofs "" -Q Props "" -Q Extract "" /tmp/dbg_$$.v 2>&1 | tail -${3:-40}
rm -f /tmp/dbg_$$.* /tmp/.dbg_$$.*
