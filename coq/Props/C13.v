(* Props/C13.v — tokenized BASIC output is a well-formed MO5 program with the right token codes. *)
Require Import PyBase Basic Mo5Basic BasicProofs.
Open Scope Z_scope.

(* structure: marker FF, 16-bit length of what follows, one record per source line in order
   (link pointer advancing by the record's size from 25A4, line number, encoded text, 00), final
   00 00: that is Spec.mo5_image *)
Theorem C13_program_structure : forall lines : list (list Z),
  forallb numbered_line lines = true ->
  tokenize_program lines = Ok (mo5_image (map (fun l => (line_number l, parse_line (line_text l))) lines)).
Proof. exact program_structure. Qed.
Print Assumptions C13_program_structure.

(* ... and the independent structural parser accepts such an image and returns its records *)
Theorem C13_image_parses : forall recs : list (Z * list Z),
  Forall (fun r => 0 <= fst r < 65536 /\ Forall (fun b => 1 <= b < 256) (snd r)) recs ->
  program_records (mo5_image recs) = Some recs.
Proof. exact program_image_parses. Qed.
Print Assumptions C13_image_parses.

(* the bytes equal those of the reference encoder on every delimited lexeme list: keyword (any
   case) -> its MO5 token, ELSE preceded by a colon, operator -> its token, other text
   upper-cased, string literals verbatim *)
Theorem C13_reference_encoder : forall lx : list lexeme,
  lex_delimited lx = true -> parse_line (ref_source lx) = ref_encode lx.
Proof. exact reference_encoding. Qed.
Print Assumptions C13_reference_encoder.

Definition ex_lx : list lexeme :=
  [LKeyword [112;114;105;110;116]; LDelim 32; LString [65] true; LDelim 59; LKeyword [67;72;82;36]; LDelim 40; LText [54;53]; LDelim 41;
   LDelim 58; LKeyword [101;108;115;101]; LDelim 32; LText [120]; LDelim 61; LDelim 45; LKeyword [83;73;78]; LDelim 40; LText [120]; LDelim 41; LString [111] false].
Example C13_example : lex_delimited ex_lx = true /\ ref_encode ex_lx = [171;32;34;65;34;59;255;143;40;54;53;41;58;58;143;32;88;212;200;255;136;40;88;41;34;111].
Proof. vm_compute. split; reflexivity. Qed.
