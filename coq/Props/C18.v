(* Props/C18.v — hostile or corrupt archives cannot hang the tools or escape the destination.
   Level: PARTIAL.  Proved here, for EVERY byte string offered as an archive: bounds on loop
   iterations and on allocated buffers, and the shape of every path written.  That wall-clock
   time and memory follow those bounds (bytes.find, bytearray growth, the kernel resolving a path
   without symbolic-link surprises) is runtime behaviour the model cannot exhibit: it is observed
   by the harness under a time limit and an address-space limit. *)
Require Import PyBase Tape K7 TapeProofs Disk ThomsonDos DiskDefs DiskReadProofs.
Open Scope Z_scope.

(* ---- tapes ---- *)
Theorem C18_tape_cursor_advances : forall (t : tape) (b : list Z) (t' : tape),
  0 <= t_pos t -> next_block t = (Some b, t') -> t_pos t + 7 <= t_pos t'.
Proof. exact tape_cursor_advances. Qed.
Print Assumptions C18_tape_cursor_advances.

(* the two loops never use more than len(raw)+1 iterations *)
Theorem C18_tape_terminates : forall (raw : list Z) (v : bool) (into : option (list Z)) (arch : list Z),
  o_status (tar_list v raw) <> -1 /\ o_status (tar_extract v into arch raw) <> -1.
Proof. exact tape_loops_terminate. Qed.
Print Assumptions C18_tape_terminates.

Theorem C18_tape_confinement : forall (raw : list Z) (v : bool) (into : option (list Z)) (arch : list Z) (e : effect),
  In e (o_effects (tar_extract v into arch raw)) ->
  e = MkDir (TapeProofs.target_of into arch) /\ into <> None \/
  exists l c, e = WriteFile (path_join (TapeProofs.target_of into arch) l) c /\ existsb (Z.eqb 47) l = false /\ existsb (Z.eqb 0) l = false.
Proof. exact tape_extract_confined. Qed.
Print Assumptions C18_tape_confinement.

(* ---- disks ---- *)
(* the chain walk uses at most 161 of its 162 turns whatever the table holds (cycles, self-links,
   dangling links) and never collects a block twice *)
Theorem C18_disk_walk_terminates : forall (bat : list Z) (first : Z),
  (length bat <= 160)%nat ->
  chain_of bat first <> Err EOther /\
  (forall bs, chain_of bat first = Ok bs -> (length bs <= 160)%nat /\ NoDup bs).
Proof. exact chain_walk_bounded. Qed.
Print Assumptions C18_disk_walk_terminates.

Theorem C18_disk_reads_terminate : forall (is_fd v : bool) (raw : list Z) (into : option (list Z)) (arch : list Z),
  d_crash (disk_list is_fd v raw) <> Some EOther /\ d_crash (disk_extract is_fd v into arch raw) <> Some EOther.
Proof. exact disk_reads_terminate. Qed.
Print Assumptions C18_disk_reads_terminate.

(* what readFile allocates is bounded by the size of a side, whatever the catalogue claims *)
Theorem C18_disk_read_buffer_bounded : forall (sd : side) (es : list centry) (e : centry) (data : list Z),
  Forall (fun s => (length s <= 256)%nat) sd -> Forall (fun s => bytesb s = true) sd ->
  list_files sd = Ok es -> In e es -> read_file sd e = Ok data ->
  zlen data <= 160 * 8 * 256 + 65536 + 160 * 8 * 256.
Proof. exact read_buffer_bounded. Qed.
Print Assumptions C18_disk_read_buffer_bounded.

(* every file or directory extract creates lies in a sideN directory of the destination; its last
   component holds neither '/' nor NUL (so no '..' component, no absolute escape) *)
Theorem C18_disk_confinement : forall (is_fd v : bool) (into : option (list Z)) (arch raw : list Z) (e : effect),
  In e (d_effects (disk_extract is_fd v into arch raw)) ->
  exists i : nat, (i < 4)%nat /\
    (e = MkDir (side_dir (DiskDefs.target_of into arch) i) \/
     exists l c, e = WriteFile (path_join (side_dir (DiskDefs.target_of into arch) i) l) c /\
                 existsb (Z.eqb 47) l = false /\ existsb (Z.eqb 0) l = false).
Proof. exact disk_extract_confined. Qed.
Print Assumptions C18_disk_confinement.

(* non-vacuity: a self-linked block *)
Example C18_example_selflink : chain_of (repeat 255 5 ++ [5] ++ repeat 255 154) 5 = Ok [5].
Proof. vm_compute. reflexivity. Qed.
