(* Props/C19.v — every documented command starts, checks its arguments, writes where documented.
   Level: PARTIAL.  argparse is modelled (Model/Cli.v, canonical command lines only; the parser
   tables are regenerated from the createArgParser calls on every run); that the interpreter
   finds and starts a package, and what the packaging backend generates for a console script,
   are observed on real processes by the harness, not proved. *)
From Coq Require Import String.
Require Import PyBase CliTypes GenCli Tape Disk Cli DiskDefs DiskLoopProofs CliProofs CreateCliProofs.
Open Scope Z_scope.

(* a command line is accepted only if it names an action (the archivers' parsers require one),
   never two different ones, and holds no unknown option *)
Theorem C19_accepts_only_wellformed : forall (spec : clispec) (argv : list (list Z)) (vs : list (list Z * list Z)) (pos : list (list Z)),
  spec_wf spec -> parse spec argv = POk vs pos ->
  (c_group_required spec = true -> exists t fl, In t (before_sep argv) /\ group_member spec t = Some fl) /\
  (forall t1 t2 f1 f2, In t1 (before_sep argv) -> In t2 (before_sep argv) ->
     group_member spec t1 = Some f1 -> group_member spec t2 = Some f2 -> concat f1 = concat f2) /\
  (forall t, In t (before_sep argv) -> is_option_like t = true -> find_opt t (c_opts spec) <> None).
Proof. exact parse_accepts_only_wellformed. Qed.
Print Assumptions C19_accepts_only_wellformed.

Theorem C19_generated_parsers_wf : spec_wf tar_cli /\ spec_wf disk_cli /\ spec_wf nl_cli /\ spec_wf prettier_cli /\ spec_wf lst2bas_cli /\ spec_wf bas2lst_cli /\
  c_group_required tar_cli = true /\ c_group_required disk_cli = true.
Proof. exact generated_parsers_wf. Qed.
Print Assumptions C19_generated_parsers_wf.

(* a rejected command line ends with status 2 and creates or modifies nothing; --help ends with 0 *)
Theorem C19_rejected_writes_nothing : forall (argv : list (list Z)) (fs : fsmap) (is_fd : bool),
  (parse tar_cli argv = PError -> cli_status (tar_main argv fs) = 2 /\ cli_effects (tar_main argv fs) = []) /\
  (parse tar_cli argv = PHelp -> cli_status (tar_main argv fs) = 0 /\ cli_effects (tar_main argv fs) = []) /\
  (parse disk_cli argv = PError -> cli_status (disk_main is_fd argv fs) = 2 /\ cli_effects (disk_main is_fd argv fs) = []) /\
  (parse disk_cli argv = PHelp -> cli_status (disk_main is_fd argv fs) = 0 /\ cli_effects (disk_main is_fd argv fs) = []).
Proof. exact rejected_command_writes_nothing. Qed.
Print Assumptions C19_rejected_writes_nothing.

(* a wrong archive extension is refused by the disk tools before anything is read or written *)
Theorem C19_wrong_extension : forall (argv : list (list Z)) (fs : fsmap) (is_fd : bool) vs archive sources,
  parse disk_cli argv = POk vs (archive :: sources) ->
  (match extension_of archive with
   | Some e => zeqb_list (map lower_char e) (if is_fd then str "fd"%string else str "sd"%string) = false
   | None => True end) ->
  cli_status (disk_main is_fd argv fs) <> 0 /\ cli_effects (disk_main is_fd argv fs) = [].
Proof. exact wrong_extension_writes_nothing. Qed.
Print Assumptions C19_wrong_extension.

(* extraction writes under --into when given, else beside the archive (disk: in its sideN directories) *)
Theorem C19_placement : forall (argv : list (list Z)) (fs : fsmap) (is_fd : bool) (e : effect),
  (In e (cli_effects (tar_main argv fs)) ->
     forall vs archive sources, parse tar_cli argv = POk vs (archive :: sources) ->
     value_of (str "action"%string) vs = Some (str "extract"%string) ->
     let target := match value_of (str "into"%string) vs with Some d => d | None => dirname archive end in
     e = MkDir target \/ exists l c, e = WriteFile (path_join target l) c /\ existsb (Z.eqb 47) l = false) /\
  (In e (cli_effects (disk_main is_fd argv fs)) ->
     forall vs archive sources, parse disk_cli argv = POk vs (archive :: sources) ->
     value_of (str "action"%string) vs = Some (str "extract"%string) ->
     let target := match value_of (str "into"%string) vs with Some d => d | None => dirname archive end in
     exists i : nat, (i < 4)%nat /\
       (e = MkDir (side_dir target i) \/ exists l c, e = WriteFile (path_join (side_dir target i) l) c /\ existsb (Z.eqb 47) l = false)).
Proof. exact extract_placement. Qed.
Print Assumptions C19_placement.

(* create writes the archive once, at the path given (sources are optional: the list may be empty,
   the archive is then blank); moto_tar writes 21504 bytes or nothing at all, the disk tools always
   write an image of their flavour's length.  The path is the one given whatever --into says:
   finding F4 of known_findings.json is this fact seen from the manual's side. *)
Theorem C19_create_writes_the_archive : forall (argv : list (list Z)) (fs : fsmap) (is_fd : bool) vs archive sources,
  value_of (str "action"%string) vs = Some (str "create"%string) ->
  (parse tar_cli argv = POk vs (archive :: sources) ->
     (cli_status (tar_main argv fs) = 0 /\
      exists raw, cli_effects (tar_main argv fs) = [WriteFile archive raw] /\ zlen raw = 21504) \/
     (cli_status (tar_main argv fs) <> 0 /\ cli_effects (tar_main argv fs) = [])) /\
  (parse disk_cli argv = POk vs (archive :: sources) ->
     (exists e, extension_of archive = Some e /\
                zeqb_list (map lower_char e) (if is_fd then str "fd"%string else str "sd"%string) = true) ->
     sources_ok fs -> srcs_printable sources ->
     cli_status (disk_main is_fd argv fs) = 0 /\
     exists raw, cli_effects (disk_main is_fd argv fs) = [WriteFile archive raw] /\
                 zlen raw = if is_fd then 1310720 else 2621440).
Proof. exact create_cli_placement. Qed.
Print Assumptions C19_create_writes_the_archive.

(* every documented module and every declared console script resolves (finite check on the
   tables generated from pyproject.toml and the package files, decided by computation) *)
Theorem C19_entry_points_resolve : forallb snd documented_modules = true /\ forallb snd declared_scripts = true /\
  length documented_modules = 7%nat.
Proof. exact entry_points_resolve. Qed.
Print Assumptions C19_entry_points_resolve.

Example C19_example_two_actions : parse tar_cli [str "-c"%string; str "--list"%string; str "a.k7"%string] = PError.
Proof. vm_compute. reflexivity. Qed.
Example C19_example_blank : parse disk_cli [str "--create"%string; str "blank.sd"%string] = POk [(str "action"%string, str "create"%string)] [str "blank.sd"%string]
  /\ extension_of (str "blank.sd"%string) = Some (str "sd"%string).
Proof. exact create_cli_blank_disk. Qed.
Example C19_example_ok : match parse disk_cli [str "--extract"%string; str "--into"%string; str "out"%string; str "a.sd"%string] with POk _ [_] => True | _ => False end.
Proof. vm_compute. exact I. Qed.
