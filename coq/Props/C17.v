(* Props/C17.v — moto_prettier upper-cases code and never touches string literals.
   Only statements, each closed by [exact]; Print Assumptions under each. *)
Require Import PyBase Text TextSpec TextProofs.
Open Scope Z_scope.

(* every output line is the character-wise scan of the input line (terminator removed)
   that toggles on EACH double quote; whatever the number of consecutive quotes *)
Theorem C17_prettier_spec : forall raw : list Z,
  prettier_line raw = pretty_spec false (chomp raw).
Proof. exact prettier_line_spec. Qed.
Print Assumptions C17_prettier_spec.

Theorem C17_same_length : forall raw : list Z,
  length (prettier_line raw) = length (chomp raw).
Proof. exact prettier_same_length. Qed.
Print Assumptions C17_same_length.

(* same characters in the same positions, except letters outside literals are upper-cased;
   position i is inside a literal iff an odd number of double quotes precede it *)
Theorem C17_positionwise : forall (raw : list Z) (i : nat) (c : Z),
  nth_error (chomp raw) i = Some c ->
  nth_error (prettier_line raw) i =
    Some (if c =? 34 then c
          else if Nat.odd (count_quotes (firstn i (chomp raw))) then c else upper_char c).
Proof. exact prettier_pointwise. Qed.
Print Assumptions C17_positionwise.

(* formatting the printed output again changes nothing *)
Theorem C17_idempotent : forall raw : list Z,
  prettier_line (prettier_line raw ++ [10]) = prettier_line raw.
Proof. exact prettier_idempotent. Qed.
Print Assumptions C17_idempotent.

(* number and order of lines: one output line per input line, in order (map) *)
Theorem C17_lines_preserved : forall inputs,
  prettier_run inputs = map prettier_line (flat_map read_input inputs).
Proof. reflexivity. Qed.
Print Assumptions C17_lines_preserved.

(* non-vacuity: a line with adjacent literals, an empty literal, a run of three quotes and
   an unterminated literal *)
Example C17_example :
  prettier_line [112;114;105;110;116;32;34;97;34;34;98;34;34;34;99;32;120;10]
  = [80;82;73;78;84;32;34;97;34;34;98;34;34;34;67;32;88].
Proof. vm_compute. reflexivity. Qed.
