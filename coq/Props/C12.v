(* Props/C12.v — what the tools print is what the archive contains (names, order, sizes, counts).
   The theorems are about the STRUCTURED report (tape: the lines, which are the structure; disk:
   d_log); the printed text of the disk tools - including the per-side and total counts with
   their singular/plural and the percentages - is tied to it by the correspondence check, which
   parses the real stdout completely and compares (section 0 of DESIGN.md). *)
Require Import PyBase GenDisk Tape K7 TapeProofs ExtraProofs Disk ThomsonDos DiskDefs DiskReadProofs DiskLoopProofs.
Open Scope Z_scope.

(* tape: list and extract print one line per file of the tape, in order, with its name, kind,
   first-block position, size in bytes and number of data blocks *)
Theorem C12_tape_read_reports : forall (raw : list Z) (files : list k7_file) (v : bool) (into : option (list Z)) (arch : list Z),
  K7 raw files -> forallb k7_file_ok files = true ->
  forallb (no_nul_path (TapeProofs.target_of into arch)) files = true ->
  tar_list v raw = mkOutcome 0 (map (k7_line v) (k7_positions 0 files)) [] None /\
  tar_extract v into arch raw =
    mkOutcome 0 (map (k7_line v) (k7_positions 0 files))
              (mkdir_of into ++ map (k7_write (TapeProofs.target_of into arch)) files) None.
Proof. exact tape_third_party_read. Qed.
Print Assumptions C12_tape_read_reports.

(* tape: create prints, file by file, exactly what list prints for the archive it wrote *)
Theorem C12_tape_create_reports_what_list_reports : forall (fs : fsmap) (srcs : list (list Z)) (arch : list Z) (v : bool),
  forallb (src_readable fs) srcs = true -> forallb src_83 srcs = true ->
  k7_encoded_size (entries fs srcs) < 21504 ->
  exists raw,
    o_effects (tar_create v fs arch srcs) = [WriteFile arch raw] /\
    o_lines (tar_create v fs arch srcs) = o_lines (tar_list v raw) /\
    o_lines (tar_list v raw) = map (k7_line v) (k7_positions 0 (entries fs srcs)).
Proof. exact tape_create_report_is_list_report. Qed.
Print Assumptions C12_tape_create_reports_what_list_reports.

(* disk, list/extract: one item per live file, in catalogue order, under the side that holds it,
   with its recorded kind and flag, its true size in bytes and the length of its block chain *)
Theorem C12_disk_read_reports : forall (is_fd v : bool) (raw : list Z) (img : image) (into : option (list Z)) (arch : list Z),
  load_image is_fd raw = Ok img ->
  forallb tool_readable img = true -> forallb names_printable img = true ->
  existsb (Z.eqb 0) (DiskDefs.target_of into arch) = false ->
  exists files : list (list dos_file),
    map dos_files img = map Some files /\
    d_status (disk_extract is_fd v into arch raw) = 0 /\ d_crash (disk_extract is_fd v into arch raw) = None /\
    d_effects (disk_extract is_fd v into arch raw) = flat_map (side_effects (DiskDefs.target_of into arch)) (indexed files) /\
    d_log (disk_extract is_fd v into arch raw) = flat_map side_log (indexed files) /\
    d_status (disk_list is_fd v raw) = 0 /\ d_crash (disk_list is_fd v raw) = None /\
    d_effects (disk_list is_fd v raw) = [] /\
    d_log (disk_list is_fd v raw) = flat_map side_log_listed (indexed files).
Proof. exact disk_read_exact. Qed.
Print Assumptions C12_disk_read_reports.

(* disk, create/add: the size announced for a stored file is its content's length and the block
   count announced is the length of its chain in the image; the files stored on side i are
   exactly those announced under side i *)
Theorem C12_disk_update_reports : forall (is_fd v init : bool) (fs : fsmap) (arch : list Z) (img img' : image) (srcs : list (list Z)),
  start_ok init img -> sources_ok fs -> srcs_printable srcs ->
  d_effects (inject_perform is_fd v init fs arch img srcs) = [WriteFile arch (save_image is_fd img')] ->
  geo_image img' -> length img' = 4%nat ->
  forall i : nat, (i < 4)%nat ->
  exists old new merged : list dos_file,
    dos_files (nth i (start_image init img) []) = Some old /\
    dos_files (nth i img' []) = Some merged /\ interleave old new merged /\
    let stored := filter item_stored (files_of_log (Z.of_nat i) (d_log (inject_perform is_fd v init fs arch img srcs))) in
    map dos_view new = map item_dos stored /\ map file_view new = map item_view stored.
Proof. exact inject_report_matches_image. Qed.
Print Assumptions C12_disk_update_reports.

(* create, then list/extract, report the same sizes and block counts for the same file *)
Theorem C12_disk_cross_action : forall (is_fd v v2 : bool) (fs : fsmap) (arch : list Z) (srcs : list (list Z)) (raw : list Z) (into : option (list Z)),
  sources_ok fs -> srcs_printable srcs ->
  existsb (Z.eqb 0) (DiskDefs.target_of into arch) = false ->
  d_effects (disk_create is_fd v fs arch srcs) = [WriteFile arch raw] ->
  exists files : list (list dos_file),
    length files = 4%nat /\
    d_status (disk_extract is_fd v2 into arch raw) = 0 /\
    d_effects (disk_extract is_fd v2 into arch raw) = flat_map (side_effects (DiskDefs.target_of into arch)) (indexed files) /\
    d_log (disk_extract is_fd v2 into arch raw) = flat_map side_log (indexed files) /\
    d_log (disk_list is_fd v2 raw) = flat_map side_log_listed (indexed files) /\
    forall i : nat, (i < 4)%nat ->
      let stored := filter item_stored (files_of_log (Z.of_nat i) (d_log (disk_create is_fd v fs arch srcs))) in
      map dos_view (nth i files []) = map item_dos stored /\ map file_view (nth i files []) = map item_view stored.
Proof. exact create_roundtrip. Qed.
Print Assumptions C12_disk_cross_action.
