(* Props/C02.v — disk archive round trip (.sd and .fd): create, then list/extract, is lossless. *)
Require Import PyBase GenDisk Disk ThomsonDos DiskDefs DiskLoopProofs TapeStateProofs EffectState DiskStateProofs.
Open Scope Z_scope.

(* for either flavour, every source list (end-of-side markers anywhere, any sizes from 0 bytes to
   beyond a side) and every verbosity of the three actions: the image create writes is listed and
   extracted without error; on each side i the files listed/extracted are exactly the files the
   create report announced as stored on side i, in that order, with the announced catalogue
   name, kind and flag, exactly the source's bytes (extracted to side<i>/NAME.EXT) and the
   announced size and block count *)
Theorem C02_disk_roundtrip : forall (is_fd v v2 : bool) (fs : fsmap) (arch : list Z) (srcs : list (list Z)) (raw : list Z) (into : option (list Z)),
  sources_ok fs -> srcs_printable srcs ->
  existsb (Z.eqb 0) (target_of into arch) = false ->
  d_effects (disk_create is_fd v fs arch srcs) = [WriteFile arch raw] ->
  exists files : list (list dos_file),
    length files = 4%nat /\
    d_status (disk_extract is_fd v2 into arch raw) = 0 /\
    d_effects (disk_extract is_fd v2 into arch raw) = flat_map (side_effects (target_of into arch)) (indexed files) /\
    d_log (disk_extract is_fd v2 into arch raw) = flat_map side_log (indexed files) /\
    d_log (disk_list is_fd v2 raw) = flat_map side_log_listed (indexed files) /\
    forall i : nat, (i < 4)%nat ->
      let stored := filter item_stored (files_of_log (Z.of_nat i) (d_log (disk_create is_fd v fs arch srcs))) in
      map dos_view (nth i files []) = map item_dos stored /\ map file_view (nth i files []) = map item_view stored.
Proof. exact create_roundtrip. Qed.
Print Assumptions C02_disk_roundtrip.

(* the stored files are the sources, in order, with their own bytes *)
Theorem C02_stored_are_the_sources : forall (is_fd v init : bool) (fs : fsmap) (arch : list Z) (img : image) (srcs : list (list Z)),
  start_ok init img -> sources_ok fs -> srcs_printable srcs ->
  subseq (somes (map item_core (filter item_stored (all_files_of_log (d_log (inject_perform is_fd v init fs arch img srcs))))))
         (somes (map (source_item fs) srcs)).
Proof. exact inject_stores_sources_in_order. Qed.
Print Assumptions C02_stored_are_the_sources.

(* from effects to the state of the destination: the files decoded on side i are the files the
   create report announced there, and - when no two extracted files claim one path (names
   pairwise distinct per side) - each of them is read back, with exactly its bytes, at
   side<i>/LABEL after the extraction, whatever the directory held before (fs0) *)
Theorem C02_directory_after_extract : forall (is_fd v v2 : bool) (fs fs0 : fsmap) (arch : list Z) (srcs : list (list Z)) (raw : list Z) (into : option (list Z)),
  sources_ok fs -> srcs_printable srcs ->
  existsb (Z.eqb 0) (target_of into arch) = false ->
  d_effects (disk_create is_fd v fs arch srcs) = [WriteFile arch raw] ->
  exists files : list (list dos_file),
    length files = 4%nat /\
    (forall i : nat, (i < 4)%nat ->
      let stored := filter item_stored (files_of_log (Z.of_nat i) (d_log (disk_create is_fd v fs arch srcs))) in
      map dos_view (nth i files []) = map item_dos stored) /\
    (NoDup (write_paths (d_effects (disk_extract is_fd v2 into arch raw))) ->
     forall (i : nat) (f : dos_file), (i < 4)%nat -> In f (nth i files []) ->
       fs_read (apply_effects fs0 (d_effects (disk_extract is_fd v2 into arch raw)))
               (path_join (side_dir (target_of into arch) i) (dos_label f)) = Some (d_content f)).
Proof. exact create_extract_directory. Qed.
Print Assumptions C02_directory_after_extract.
