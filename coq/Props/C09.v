(* Props/C09.v — tape creation is all-or-nothing and never over- or under-estimates capacity. *)
Require Import PyBase GenTape Tape K7 TapeProofs.
Open Scope Z_scope.

(* encoded size (Spec/K7.v: 35 per leader, 21 + payload per data block, 21 per end block)
   below the tape size: accepted, complete, decodable *)
Theorem C09_accepts_what_fits :
  forall (fs : fsmap) (srcs : list (list Z)) (arch : list Z) (v : bool),
  forallb (src_readable fs) srcs = true ->
  k7_encoded_size (entries fs srcs) < 21504 ->
  let raw := concat (map k7_file_image (entries fs srcs)) ++ repeat 0 (Z.to_nat (21504 - k7_encoded_size (entries fs srcs))) in
  o_status (tar_create v fs arch srcs) = 0 /\
  o_effects (tar_create v fs arch srcs) = [WriteFile arch raw] /\
  zlen raw = 21504 /\
  k7_decode raw = Some (entries fs srcs) /\
  K7 raw (entries fs srcs).
Proof. exact tape_create_conforms. Qed.
Print Assumptions C09_accepts_what_fits.

(* at or above the tape size: refused with a diagnostic, nothing written *)
Theorem C09_refuses_what_does_not_fit :
  forall (fs : fsmap) (srcs : list (list Z)) (arch : list Z) (v : bool),
  forallb (src_readable fs) srcs = true ->
  21504 <= k7_encoded_size (entries fs srcs) ->
  o_status (tar_create v fs arch srcs) <> 0 /\
  o_effects (tar_create v fs arch srcs) = [] /\
  (exists ls, o_lines (tar_create v fs arch srcs) = ls ++ [inj_overflow_message]).
Proof. exact tape_create_refuses. Qed.
Print Assumptions C09_refuses_what_does_not_fit.

(* whatever happens (overflow anywhere, missing or unreadable source at any position): either
   status 0 and exactly one write, of a full-size tape, at the archive path, or a non-zero
   status and no write at all *)
Theorem C09_all_or_nothing :
  forall (fs : fsmap) (srcs : list (list Z)) (arch : list Z) (v : bool),
  (o_status (tar_create v fs arch srcs) = 0 /\
   exists raw, o_effects (tar_create v fs arch srcs) = [WriteFile arch raw] /\ zlen raw = 21504) \/
  (o_status (tar_create v fs arch srcs) <> 0 /\ o_effects (tar_create v fs arch srcs) = []).
Proof. exact tape_create_all_or_nothing. Qed.
Print Assumptions C09_all_or_nothing.

Example C09_example_missing : o_effects (tar_create false [] [116] [[97;46;98]]) = [] /\ o_status (tar_create false [] [116] [[97;46;98]]) = 1.
Proof. vm_compute. split; reflexivity. Qed.
