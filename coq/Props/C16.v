(* Props/C16.v — moto_nl numbers exactly the unnumbered lines, consistently with their neighbours. *)
Require Import PyBase Text TextSpec TextProofs ExtraProofs.
Open Scope Z_scope.

(* one output line per input line; a line that begins with a number is reproduced verbatim,
   any other line after its number (left-aligned, padded to the width) and one space; the
   number is the start value for the first line, else the previous line's number + increment:
   that is [nl_spec].  [raws] are lines as readlines yields them (is_line). *)
Theorem C16_nl_shape : forall start inc width (raws : list (list Z)),
  Forall (fun r => is_line r = true) raws ->
  nl_lines inc width start raws = nl_spec start inc width None (map chomp raws).
Proof. exact nl_shape. Qed.
Print Assumptions C16_nl_shape.

Theorem C16_one_line_per_line : forall start inc width lines prev,
  length (nl_spec start inc width prev lines) = length lines.
Proof. exact nl_spec_length. Qed.
Print Assumptions C16_one_line_per_line.

(* several inputs behave as the concatenation of their line sequences *)
Theorem C16_nl_concat : forall start inc width inputs,
  nl_run start inc width inputs = nl_lines inc width start (flat_map read_input inputs).
Proof. reflexivity. Qed.
Print Assumptions C16_nl_concat.

(* ... which is the line sequence of the concatenated text when each non-final text ends
   with a newline (stdin flavour of line splitting) *)
Theorem C16_nl_concat_text : forall a b,
  readlines_stdin ((a ++ [10]) ++ b) = readlines_stdin (a ++ [10]) ++ readlines_stdin b.
Proof. exact readlines_stdin_concat. Qed.
Print Assumptions C16_nl_concat_text.

(* renumbering an already numbered output changes nothing *)
Theorem C16_nl_idempotent : forall start inc width lines, 1 <= start -> 1 <= inc ->
  nl_spec start inc width None (nl_spec start inc width None lines) = nl_spec start inc width None lines.
Proof. exact nl_idempotent. Qed.
Print Assumptions C16_nl_idempotent.

(* what readlines yields (universal newlines for files, LF only for stdin) are lines in the sense
   of C16_nl_shape's hypothesis: that hypothesis is always met by the tool *)
Theorem C16_readlines_are_lines : forall t : list Z,
  Forall (fun r => is_line r = true) (readlines_stdin t) /\ Forall (fun r => is_line r = true) (readlines_file t).
Proof. intro t; split; [exact (readlines_stdin_lines t) | exact (readlines_file_lines t)]. Qed.
Print Assumptions C16_readlines_are_lines.

(* tool level: renumbering the printed output, given back as a file, changes nothing *)
Theorem C16_nl_tool_idempotent : forall (start inc width : Z) (text : list Z),
  1 <= start -> 1 <= inc -> existsb (Z.eqb 13) text = false ->
  nl_run start inc width [(false, printed (nl_run start inc width [(false, text)]))] = nl_run start inc width [(false, text)].
Proof. exact nl_tool_idempotent. Qed.
Print Assumptions C16_nl_tool_idempotent.

(* two files behave as their concatenation when the first ends with a newline *)
Theorem C16_nl_files_concat : forall (start inc width : Z) (a b : list Z),
  existsb (Z.eqb 13) a = false ->
  nl_run start inc width [(false, a ++ [10]); (false, b)] = nl_run start inc width [(false, (a ++ [10]) ++ b)].
Proof. exact nl_files_concat. Qed.
Print Assumptions C16_nl_files_concat.

(* non-vacuity *)
Example C16_example :
  nl_run 10 10 4 [(false, [97;10; 53;48;32;98;10; 10; 48;99])]
  = [[49;48;32;32;32;97]; [53;48;32;98]; [54;48;32;32;32]; [55;48;32;32;32;48;99]].
Proof. vm_compute. reflexivity. Qed.
Example C16_example_lines : Forall (fun r => is_line r = true) (readlines_file [97;10; 53;48;32;98;13;10; 10; 48;99]).
Proof. vm_compute. repeat constructor. Qed.
