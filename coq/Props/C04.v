(* Props/C04.v — created disk images conform to the Thomson DOS layout (independent decoder/fsck). *)
Require Import PyBase GenDisk Disk ThomsonDos DiskDefs DiskGeoProofs DiskWriteProofs DiskLoopProofs DiskDocProofs.
Open Scope Z_scope.

(* geometry: 4 sides x 80 tracks x 16 sectors, 256-byte sectors (.fd) or 512-byte slots whose
   upper half is FF (.sd), whatever the sides hold *)
Theorem C04_geometry : forall img : image, geo_image img ->
  payloads_of (save_image false img) = save_image true img /\
  normalise_padding (save_image false img) = save_image false img /\
  zlen (save_image true img) = Z.of_nat (length img) * 327680 /\
  zlen (save_image false img) = Z.of_nat (length img) * 655360.
Proof. exact save_flavours. Qed.
Print Assumptions C04_geometry.

(* every side of a created image passes the STRICT check of Spec/ThomsonDos.v (table byte 0 zero,
   valid statuses, blocks 40/41 reserved, every live entry's chain acyclic and ending in C1..C8,
   chains pairwise disjoint, used blocks = the union of the chains, 16 FF bytes after each live
   record): create = inject_perform with init = true on four blank sides *)
Theorem C04_created_sides_strict : forall (is_fd v init : bool) (fs : fsmap) (arch : list Z) (img : image) (srcs : list (list Z)),
  start_ok init img -> sources_ok fs -> srcs_printable srcs ->
  d_effects (inject_perform is_fd v init fs arch img srcs) = [] \/
  exists img', d_effects (inject_perform is_fd v init fs arch img srcs) = [WriteFile arch (save_image is_fd img')] /\
    d_status (inject_perform is_fd v init fs arch img srcs) = 0 /\
    length img' = 4%nat /\ geo_image img' /\ forallb tool_readable img' = true /\
    (forallb names_printable (start_image init img) = true -> forallb names_printable img' = true) /\
    (forallb fsck_strict (start_image init img) = true -> forallb fsck_strict img' = true).
Proof. exact inject_keeps_fs. Qed.
Print Assumptions C04_created_sides_strict.

Theorem C04_blank_side_formats_strict : forall sd : side,
  side_geometry sd = true ->
  fsck_strict (init_fs sd) = true /\ tool_readable (init_fs sd) = true /\ names_printable (init_fs sd) = true /\
  dos_files (init_fs sd) = Some [] /\ free_count (init_fs sd) = 157.
Proof. exact init_fs_strict. Qed.
Print Assumptions C04_blank_side_formats_strict.

(* the independent decoder reads, on every side, exactly the files the report announced there,
   with the announced catalogue fields and bytes (content laid out 255 bytes per sector is what
   dos_files decodes) *)
Theorem C04_decoded_files_are_the_stored_ones : forall (is_fd v init : bool) (fs : fsmap) (arch : list Z) (img img' : image) (srcs : list (list Z)),
  start_ok init img -> sources_ok fs -> srcs_printable srcs ->
  d_effects (inject_perform is_fd v init fs arch img srcs) = [WriteFile arch (save_image is_fd img')] ->
  geo_image img' -> length img' = 4%nat ->
  forall i : nat, (i < 4)%nat ->
  exists old new merged : list dos_file,
    dos_files (nth i (start_image init img) []) = Some old /\
    dos_files (nth i img' []) = Some merged /\ interleave old new merged /\
    let stored := filter item_stored (files_of_log (Z.of_nat i) (d_log (inject_perform is_fd v init fs arch img srcs))) in
    map dos_view new = map item_dos stored /\ map file_view new = map item_view stored.
Proof. exact inject_report_matches_image. Qed.
Print Assumptions C04_decoded_files_are_the_stored_ones.

(* kind and flag follow the documented extension rules (README table, written in Spec), for
   every source argument *)
Theorem C04_kinds_as_documented : forall src : list Z,
  let '(name, ext, ext_opt, clean) := split_source src in
  let '(forced, kind, dtype) := processor_of name ext ext_opt in
  let '(ext_doc, kind_doc, flag_doc) := doc_disk_kind name ext ext_opt in
  kind = kind_doc /\ data_to_byte dtype = flag_doc /\ (dtype = 0 \/ dtype = 1) /\ 0 <= kind < 4 /\
  match forced with Some x => x | None => ext end = ext_doc.
Proof. exact split_source_processors_match. Qed.
Print Assumptions C04_kinds_as_documented.
