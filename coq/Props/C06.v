(* Props/C06.v — adding files to an existing disk image never disturbs what is already there. *)
Require Import PyBase GenDisk Disk ThomsonDos DiskDefs DiskGeoProofs DiskWriteProofs DiskLoopProofs.
Open Scope Z_scope.

(* frame of one store on ANY well-formed side (whoever wrote it, however fragmented, with deleted
   entries, extra reserved blocks, any filler): no sector of a block that was in use or reserved
   is modified, the table and catalogue sectors excepted; there, only status bytes of formerly
   free blocks and a catalogue slot that held no live entry *)
Theorem C06_store_frame : forall (sd : side) (content name ext : list Z) (kind dtype : Z),
  tool_readable sd = true -> write_args_ok name ext kind dtype content = true ->
  let sd' := fst (write_file sd content name ext kind dtype) in
  length sd' = length sd /\
  (forall b j : Z, 0 <= b < 160 -> 0 <= j < 8 -> st_free (fstatus (fat sd) b) = false ->
     8 * b + j <> 321 -> ~ (322 <= 8 * b + j <= 335) ->
     nsec sd' (Z.to_nat (8 * b + j)) = nsec sd (Z.to_nat (8 * b + j))) /\
  (forall k : nat, nth k (nsec sd' fat_sector) 0 <> nth k (nsec sd fat_sector) 0 ->
     (1 <= k <= 160)%nat /\ st_free (nth k (nsec sd fat_sector) 0) = true) /\
  (forall i : nat, nth i (cat_entries sd') [] <> nth i (cat_entries sd) [] ->
     e_live (nth i (cat_entries sd) []) = false).
Proof. exact write_file_frame. Qed.
Print Assumptions C06_store_frame.

(* a whole --add: on every side the files of the new image are an order-preserving interleaving
   of the files that were there (same name, kind, flag, bytes: same dos_file) with the files the
   report says were stored on that side, which are there with exactly the announced bytes *)
Theorem C06_add_preserves : forall (is_fd v init : bool) (fs : fsmap) (arch : list Z) (img img' : image) (srcs : list (list Z)),
  start_ok init img -> sources_ok fs -> srcs_printable srcs ->
  d_effects (inject_perform is_fd v init fs arch img srcs) = [WriteFile arch (save_image is_fd img')] ->
  geo_image img' -> length img' = 4%nat ->
  forall i : nat, (i < 4)%nat ->
  exists old new merged : list dos_file,
    dos_files (nth i (start_image init img) []) = Some old /\
    dos_files (nth i img' []) = Some merged /\ interleave old new merged /\
    let stored := filter item_stored (files_of_log (Z.of_nat i) (d_log (inject_perform is_fd v init fs arch img srcs))) in
    map dos_view new = map item_dos stored /\ map file_view new = map item_view stored.
Proof. exact inject_report_matches_image. Qed.
Print Assumptions C06_add_preserves.

(* adding nothing rewrites a valid 4-sided emulator image unchanged (for .sd: C11_load_save_sd) *)
Theorem C06_add_nothing_identity : forall (v : bool) (fs : fsmap) (arch raw : list Z) (img : image),
  zlen raw = 4 * 327680 -> load_image true raw = Ok img ->
  Forall (fun sd => forallb st_valid (fat sd) = true) img ->
  d_status (disk_add true v fs arch raw []) = 0 /\
  d_effects (disk_add true v fs arch raw []) = [WriteFile arch raw].
Proof. exact noop_add_identity_fd. Qed.
Print Assumptions C06_add_nothing_identity.
