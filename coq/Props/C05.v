(* Props/C05.v — the disk file system stays consistent across every history of additions. *)
Require Import PyBase GenDisk Disk ThomsonDos DiskDefs DiskWriteProofs DiskLoopProofs DiskNameProofs.
Open Scope Z_scope.

(* base: formatting a side yields a strict, empty file system with 157 free blocks *)
Theorem C05_init : forall sd : side,
  side_geometry sd = true ->
  fsck_strict (init_fs sd) = true /\ tool_readable (init_fs sd) = true /\ names_printable (init_fs sd) = true /\
  dos_files (init_fs sd) = Some [] /\ free_count (init_fs sd) = 157.
Proof. exact init_fs_strict. Qed.
Print Assumptions C05_init.

(* step: ONE writeFile on a well-formed side, whatever the file and whatever the outcome.  The
   side stays well formed (strict if it was); a success inserts exactly the new file, its content
   laid out 255 bytes per sector on formerly free blocks (so used = the disjoint union of the
   chains and reserved blocks are never handed out: both are part of fsck_strict); a refusal -
   too few free blocks, or no free catalogue entry - leaves the table, the catalogue and every
   file unchanged (payloads of FREE blocks may have been written before a catalogue refusal:
   that is not observable through the file system) *)
Theorem C05_step : forall (sd : side) (content name ext : list Z) (kind dtype : Z),
  tool_readable sd = true -> write_args_ok name ext kind dtype content = true ->
  let sd' := fst (write_file sd content name ext kind dtype) in
  let r := snd (write_file sd content name ext kind dtype) in
  tool_readable sd' = true /\
  (names_printable sd = true -> names_printable sd' = true) /\
  (fsck_strict sd = true -> fsck_strict sd' = true) /\
  match r with
  | Ok _ =>
    needed_blocks (zlen content) <= free_count sd /\ has_free_slot sd = true /\
    exists fs1 fs2 blocks,
      dos_files sd = Some (fs1 ++ fs2) /\
      dos_files sd' = Some (fs1 ++ stored_file name ext kind (dtype =? 1) content blocks :: fs2) /\
      zlen blocks = needed_blocks (zlen content) /\
      Forall (fun b => st_free (fstatus (fat sd) b) = true) blocks /\
      free_count sd' = free_count sd - zlen blocks
  | Err EValue =>
    (free_count sd < needed_blocks (zlen content) \/ has_free_slot sd = false) /\
    dos_files sd' = dos_files sd /\ fat sd' = fat sd /\ cat_entries sd' = cat_entries sd
  | Err _ => False
  end.
Proof. exact write_file_step. Qed.
Print Assumptions C05_step.

(* history: whatever the sequence of sources of one create/add invocation - refusals at any
   position, --eos anywhere, more sources than four sides hold - the image written has four
   well-formed sides, strict if it started from strict ones; composing invocations (each starts
   from the image the previous one wrote: C11_save_load) gives every history *)
Theorem C05_invocation_keeps_fs : forall (is_fd v init : bool) (fs : fsmap) (arch : list Z) (img : image) (srcs : list (list Z)),
  start_ok init img -> sources_ok fs -> srcs_printable srcs ->
  d_effects (inject_perform is_fd v init fs arch img srcs) = [] \/
  exists img', d_effects (inject_perform is_fd v init fs arch img srcs) = [WriteFile arch (save_image is_fd img')] /\
    d_status (inject_perform is_fd v init fs arch img srcs) = 0 /\
    length img' = 4%nat /\ geo_image img' /\ forallb tool_readable img' = true /\
    (forallb names_printable (start_image init img) = true -> forallb names_printable img' = true) /\
    (forallb fsck_strict (start_image init img) = true -> forallb fsck_strict img' = true).
Proof. exact inject_keeps_fs. Qed.
Print Assumptions C05_invocation_keeps_fs.

Theorem C05_invocation_always_saves : forall (is_fd v init : bool) (fs : fsmap) (arch : list Z) (img : image) (srcs : list (list Z)),
  start_ok init img -> sources_ok fs -> srcs_printable srcs ->
  d_status (inject_perform is_fd v init fs arch img srcs) = 0 /\ d_crash (inject_perform is_fd v init fs arch img srcs) = None /\
  exists c, d_effects (inject_perform is_fd v init fs arch img srcs) = [WriteFile arch c].
Proof. exact inject_always_saves. Qed.
Print Assumptions C05_invocation_always_saves.

(* outside the printable-name hypothesis of the theorems above: a catalogue name or extension that
   cannot be encoded (a character above 7F) is refused with the side returned UNTOUCHED, whatever
   the side, the content and the free space (the catalogue record is built before the first
   modification; it used to be built after the table had been committed: finding F17, repaired) *)
Theorem C05_unencodable_name_changes_nothing : forall (sd : side) (content name ext : list Z) (kind dtype : Z),
  encodable (upper_ascii name) && encodable (upper_ascii ext) = false ->
  fst (write_file sd content name ext kind dtype) = sd /\
  exists e, snd (write_file sd content name ext kind dtype) = Err e.
Proof. exact write_unencodable_name_changes_nothing. Qed.
Print Assumptions C05_unencodable_name_changes_nothing.
