(* Props/C07.v — any well-formed third-party disk image is listed and extracted exactly. *)
Require Import PyBase GenDisk Disk ThomsonDos DiskDefs DiskReadProofs.
Open Scope Z_scope.

(* for every emulator image of 1, 2 or 4 sides or 4-sided SDDrive image that loads, whose sides
   satisfy the Spec's reading-strength well-formedness (Spec/ThomsonDos.v: tool_readable =
   geometry, valid statuses, blocks 40/41 reserved, every live entry with an acyclic chain ending
   in C1..C8 through blocks in use, chains pairwise disjoint, at most 255 bytes in the last
   sector, used slots pointing inside the table — blocks in ANY order, fragmented, deleted and
   never-used entries anywhere) with printable names: list and extract report exactly the live
   files of every side as the independent decoder dos_files reads them — recorded kind and flag,
   true size, chain length — and extract writes exactly their bytes under sideN *)
Theorem C07_third_party_disk_read :
  forall (is_fd v : bool) (raw : list Z) (img : image) (into : option (list Z)) (arch : list Z),
  load_image is_fd raw = Ok img ->
  forallb tool_readable img = true -> forallb names_printable img = true ->
  existsb (Z.eqb 0) (target_of into arch) = false ->
  exists files : list (list dos_file),
    map dos_files img = map Some files /\
    d_status (disk_extract is_fd v into arch raw) = 0 /\ d_crash (disk_extract is_fd v into arch raw) = None /\
    d_effects (disk_extract is_fd v into arch raw) = flat_map (side_effects (target_of into arch)) (indexed files) /\
    d_log (disk_extract is_fd v into arch raw) = flat_map side_log (indexed files) /\
    d_status (disk_list is_fd v raw) = 0 /\ d_crash (disk_list is_fd v raw) = None /\
    d_effects (disk_list is_fd v raw) = [] /\
    d_log (disk_list is_fd v raw) = flat_map side_log_listed (indexed files).
Proof. exact disk_read_exact. Qed.
Print Assumptions C07_third_party_disk_read.

(* side by side: the controller's view of a well-formed side is the decoder's view *)
Theorem C07_side_read_exact : forall sd : side,
  tool_readable sd = true -> names_printable sd = true ->
  exists (es : list centry) (fs : list dos_file),
    list_files sd = Ok es /\ dos_files sd = Some fs /\ length es = length fs /\
    Forall2 (fun e f =>
      ce_status e = entry_ALIVE /\ entry_name e = d_name f /\ entry_ext e = d_ext f /\
      entry_kind e = kind_shown (d_kind f) /\ entry_is_ascii e = (d_flag f =? 255) /\
      ce_blocks e = d_blocks f /\ entry_size_blocks e = zlen (d_blocks f) /\
      entry_size_bytes e = zlen (d_content f) /\ entry_decodable e = true /\
      read_file sd e = Ok (d_content f) /\ extracted_name e = dos_label f) es fs.
Proof. exact list_files_exact. Qed.
Print Assumptions C07_side_read_exact.
