(* Props/C07.v — any well-formed third-party disk image is listed and extracted exactly. *)
Require Import PyBase GenDisk Disk ThomsonDos DiskDefs DiskReadProofs TapeStateProofs EffectState DiskStateProofs.
Open Scope Z_scope.

(* for every emulator image of 1, 2 or 4 sides or 4-sided SDDrive image that loads, whose sides
   satisfy the Spec's reading-strength well-formedness (Spec/ThomsonDos.v: tool_readable =
   geometry, valid statuses, blocks 40/41 reserved, every live entry with an acyclic chain ending
   in C1..C8 through blocks in use, chains pairwise disjoint, at most 255 bytes in the last
   sector, used slots pointing inside the table — blocks in ANY order, fragmented, deleted and
   never-used entries anywhere) with printable names: list and extract report exactly the live
   files of every side as the independent decoder dos_files reads them — recorded kind and flag,
   true size, chain length — and extract writes exactly their bytes under sideN *)
Theorem C07_third_party_disk_read :
  forall (is_fd v : bool) (raw : list Z) (img : image) (into : option (list Z)) (arch : list Z),
  load_image is_fd raw = Ok img ->
  forallb tool_readable img = true -> forallb names_printable img = true ->
  existsb (Z.eqb 0) (target_of into arch) = false ->
  exists files : list (list dos_file),
    map dos_files img = map Some files /\
    d_status (disk_extract is_fd v into arch raw) = 0 /\ d_crash (disk_extract is_fd v into arch raw) = None /\
    d_effects (disk_extract is_fd v into arch raw) = flat_map (side_effects (target_of into arch)) (indexed files) /\
    d_log (disk_extract is_fd v into arch raw) = flat_map side_log (indexed files) /\
    d_status (disk_list is_fd v raw) = 0 /\ d_crash (disk_list is_fd v raw) = None /\
    d_effects (disk_list is_fd v raw) = [] /\
    d_log (disk_list is_fd v raw) = flat_map side_log_listed (indexed files).
Proof. exact disk_read_exact. Qed.
Print Assumptions C07_third_party_disk_read.

(* side by side: the controller's view of a well-formed side is the decoder's view *)
Theorem C07_side_read_exact : forall sd : side,
  tool_readable sd = true -> names_printable sd = true ->
  exists (es : list centry) (fs : list dos_file),
    list_files sd = Ok es /\ dos_files sd = Some fs /\ length es = length fs /\
    Forall2 (fun e f =>
      ce_status e = entry_ALIVE /\ entry_name e = d_name f /\ entry_ext e = d_ext f /\
      entry_kind e = kind_shown (d_kind f) /\ entry_is_ascii e = (d_flag f =? 255) /\
      ce_blocks e = d_blocks f /\ entry_size_blocks e = zlen (d_blocks f) /\
      entry_size_bytes e = zlen (d_content f) /\ entry_decodable e = true /\
      read_file sd e = Ok (d_content f) /\ extracted_name e = dos_label f) es fs.
Proof. exact list_files_exact. Qed.
Print Assumptions C07_side_read_exact.

(* from effects to the state of the destination: whatever it held before (fs0 is arbitrary -
   longer, shorter or other files under the same names, as after an earlier extraction), once the
   image is extracted every live file of side i is read back with exactly its bytes at
   side<i>/LABEL, provided no two live files claim one path *)
Theorem C07_directory_after_extract : forall (is_fd v : bool) (raw : list Z) (img : image) (into : option (list Z)) (arch : list Z) (fs0 : fsmap),
  load_image is_fd raw = Ok img ->
  forallb tool_readable img = true -> forallb names_printable img = true ->
  existsb (Z.eqb 0) (target_of into arch) = false ->
  exists files : list (list dos_file),
    map dos_files img = map Some files /\
    (NoDup (write_paths (d_effects (disk_extract is_fd v into arch raw))) ->
     forall (i : nat) (fl : list dos_file) (f : dos_file), nth_error files i = Some fl -> In f fl ->
       fs_read (apply_effects fs0 (d_effects (disk_extract is_fd v into arch raw)))
               (path_join (side_dir (target_of into arch) i) (dos_label f)) = Some (d_content f)).
Proof. exact third_party_extract_directory. Qed.
Print Assumptions C07_directory_after_extract.

(* the premise on paths is met by two files of one side with different names, and the earlier
   content of the destination plays no role *)
Example C07_example_overwrite :
  let f1 := mkDos [65;32;32;32;32;32;32;32] [66;32;32] 1 0 [3] [1;2;3] in
  let f2 := mkDos [67;32;32;32;32;32;32;32] [68;32;32] 1 0 [4] [] in
  let es := flat_map (side_effects [100]) (indexed [[f1; f2]]) in
  NoDup (write_paths es) /\
  fs_read (apply_effects [(path_join (side_dir [100] 0) (dos_label f2), [9;9;9;9;9;9])] es) (path_join (side_dir [100] 0) (dos_label f2)) = Some [].
Proof.
  vm_compute. split; [|reflexivity].
  repeat constructor; cbn; intuition discriminate.
Qed.
