(* Props/C03.v — created tapes conform to the MO5 .k7 format as read by an independent decoder. *)
Require Import PyBase Tape K7 TapeProofs.
Open Scope Z_scope.

(* for every source list accepted by create (names of any length: the fields are cut/padded to
   8 and 3 bytes): the archive is exactly the concatenation of the file images built from the
   format's constructors (Spec/K7.v: sixteen 01, 3C 5A, type, length = payload+2 mod 256, payload
   of at most 254 bytes, checksum; leader with name8 ext3 kind mode per the documented table;
   data blocks carrying the content; end block FF 02 00), zero padded to 21504 bytes; and the
   independent strict decoder recovers exactly those files. *)
Theorem C03_created_tape_conforms :
  forall (fs : fsmap) (srcs : list (list Z)) (arch : list Z) (v : bool),
  forallb (src_readable fs) srcs = true ->
  k7_encoded_size (entries fs srcs) < 21504 ->
  let raw := concat (map k7_file_image (entries fs srcs)) ++ repeat 0 (Z.to_nat (21504 - k7_encoded_size (entries fs srcs))) in
  o_status (tar_create v fs arch srcs) = 0 /\
  o_effects (tar_create v fs arch srcs) = [WriteFile arch raw] /\
  zlen raw = 21504 /\
  k7_decode raw = Some (entries fs srcs) /\
  K7 raw (entries fs srcs).
Proof. exact tape_create_conforms. Qed.
Print Assumptions C03_created_tape_conforms.

(* non-vacuity *)
Definition ex_fs : fsmap := [([97;46;98;97;115], [1;2;3]); ([108;111;110;103;110;97;109;101;120;46;99;115;118], [])].
Definition ex_srcs : list (list Z) := [[97;46;98;97;115;44;97]; [108;111;110;103;110;97;109;101;120;46;99;115;118]].
Example C03_example_hyps : forallb (src_readable ex_fs) ex_srcs = true /\ k7_encoded_size (entries ex_fs ex_srcs) = 136.
Proof. vm_compute. split; reflexivity. Qed.
Example C03_example_decode :
  match o_effects (tar_create false ex_fs [116] ex_srcs) with
  | [WriteFile _ raw] => k7_decode raw = Some (entries ex_fs ex_srcs)
  | _ => False end.
Proof. vm_compute. reflexivity. Qed.
