(* Props/C14.v — tokenizing a listing never loses, duplicates or reorders program text. *)
Require Import PyBase Basic Mo5Basic BasicProofs.
Open Scope Z_scope.

(* for every numbered listing over printable ASCII (any spacing, keywords/identifiers/digits run
   together in any way, any quote pattern, last line with or without newline): the tokenized
   program decodes back, through the independent detokenizer of Spec/Mo5Basic.v (structure
   check + every token expanded to its keyword), to the same line numbers and the same text,
   upper-cased outside string literals; string literal contents unchanged *)
Theorem C14_detok_roundtrip : forall lines : list (list Z),
  forallb listing_line_ok lines = true ->
  exists img, tokenize_program lines = Ok img /\
    detok img = Some (map (fun l => (line_number l, upper_outside_strings false (line_text l))) lines).
Proof. exact tokenize_detok. Qed.
Print Assumptions C14_detok_roundtrip.

(* non-vacuity: GOTO, TOTO, an ELSE glued to PRINT, a quote run, a last line without newline *)
Definition ex_lines : list (list Z) :=
  [[49;48;32;71;79;84;79;32;49;48;48;10]; [50;48;32;116;111;116;111;61;49;10];
   [51;48;32;73;70;65;84;72;69;78;66;69;76;83;69;80;82;73;78;84;34;34;34;120;10]; [54;48;32;88;61;49;50]].
Example C14_example_ok : forallb listing_line_ok ex_lines = true. Proof. vm_compute. reflexivity. Qed.
Example C14_example_text :
  match tokenize_program ex_lines with Ok img =>
    detok img = Some [(10, [71;79;84;79;32;49;48;48]); (20, [84;79;84;79;61;49]);
                      (30, [73;70;65;84;72;69;78;66;69;76;83;69;80;82;73;78;84;34;34;34;120]); (60, [88;61;49;50])]
  | Err _ => False end.
Proof. vm_compute. reflexivity. Qed.
