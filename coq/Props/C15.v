(* Props/C15.v — ASCII BASIC conversion round-trips listings line for line. *)
Require Import PyBase Basic AsciiBasic BasicProofs.
Open Scope Z_scope.

(* listing -> ASCII BASIC: starts with CR and holds each source line, right-trimmed (Python's
   whitespace set), 7-bit characters only, followed by CR *)
Theorem C15_lst2bas_shape : forall lines : list (list Z), lst_to_ascii lines = ascii_basic_spec lines.
Proof. exact ascii_basic_shape. Qed.
Print Assumptions C15_lst2bas_shape.

Theorem C15_lst2bas_7bit : forall lines : list (list Z),
  Forall (Forall (fun c => 0 <= c)) lines -> Forall (fun b => 0 <= b < 128) (lst_to_ascii lines).
Proof. exact ascii_basic_7bit. Qed.
Print Assumptions C15_lst2bas_7bit.

(* ASCII BASIC -> listing, for EVERY byte string and both line endings: the non-empty pieces
   between CR/LF separators, in order, each terminated by the selected ending *)
Theorem C15_bas2lst_shape : forall (dos : bool) (data : list Z), ascii_to_lst dos data = listing_spec dos data.
Proof. exact listing_shape. Qed.
Print Assumptions C15_bas2lst_shape.

Theorem C15_never_an_empty_line : forall (dos : bool) (data : list Z),
  exists pieces : list (list Z),
    ascii_to_lst dos data = flat_map (fun p => p ++ eol_of dos) pieces /\
    Forall (fun p => p <> [] /\ existsb is_crlf p = false) pieces.
Proof. exact listing_no_empty_line. Qed.
Print Assumptions C15_never_an_empty_line.

(* the composition returns the listing's non-blank lines (right-trimmed, 7-bit) unchanged *)
Theorem C15_roundtrip : forall (dos : bool) (lines : list (list Z)),
  Forall (fun l => existsb is_crlf (rstrip_py l) = false) lines ->
  ascii_to_lst dos (lst_to_ascii lines) =
  flat_map (fun l => l ++ eol_of dos) (filter nonempty (map (fun l => keep7 (rstrip_py l)) lines)).
Proof. exact ascii_round_trip. Qed.
Print Assumptions C15_roundtrip.

Example C15_example :
  ascii_to_lst true (lst_to_ascii [[49;48;32;233;65;32;160;10]; [32;9;10]; [50;48;10]]) = [49;48;32;65;13;10;50;48;13;10].
Proof. vm_compute. reflexivity. Qed.
