(* Props/C01.v — tape archive round trip: create, then list/extract, returns every file intact. *)
Require Import PyBase Tape K7 TapeProofs TapeStateProofs.
Open Scope Z_scope.

(* for every ordered list of readable sources with 8.3 ASCII names (any case, with or without
   extension or ',a' marker, reached through any directory) whose encoded size fits the tape:
   create succeeds and writes one archive; listing it names exactly those files in order;
   extracting it writes, in order, each file under its upper-cased 8.3 name next to the archive
   with exactly the source's bytes (any content: empty, marker-imitating, any size class).
   With pairwise distinct catalogue names the directory therefore ends up holding every file
   byte for byte. *)
Theorem C01_tape_roundtrip :
  forall (fs : fsmap) (srcs : list (list Z)) (arch : list Z) (v : bool),
  forallb (src_readable fs) srcs = true -> forallb src_83 srcs = true ->
  negb (existsb (Z.eqb 0) (dirname arch)) = true ->
  k7_encoded_size (entries fs srcs) < 21504 ->
  exists raw,
    o_status (tar_create v fs arch srcs) = 0 /\
    o_effects (tar_create v fs arch srcs) = [WriteFile arch raw] /\
    o_status (tar_list false raw) = 0 /\
    o_lines (tar_list false raw) = map src_catname srcs /\
    o_status (tar_extract v None arch raw) = 0 /\
    o_effects (tar_extract v None arch raw) =
      map (fun s => WriteFile (path_join (dirname arch) (src_catname s)) (src_content fs s)) srcs.
Proof. exact tape_roundtrip. Qed.
Print Assumptions C01_tape_roundtrip.

(* non-vacuity: three files, one empty, one whose payload imitates a block marker, in a dotted directory *)
Definition ex_fs : fsmap := [([100;46;120;47;97;46;98;97;115], [1;1;1;60;90;255;2;0]); ([98], []); ([99;46;99;115;118], [0])].
Definition ex_srcs : list (list Z) := [[100;46;120;47;97;46;98;97;115;44;65]; [98]; [99;46;99;115;118]].
Example C01_example_hyps : forallb (src_readable ex_fs) ex_srcs = true /\ forallb src_83 ex_srcs = true.
Proof. vm_compute. split; reflexivity. Qed.
Example C01_example_names : map src_catname ex_srcs = [[65;46;66;65;83]; [66;46]; [67;46;67;83;86]].
Proof. vm_compute. reflexivity. Qed.

(* from effects to the state of the directory: when the destinations are pairwise distinct and none
   of them is the archive itself (the case finding F18 is about), then after create and extract
   every source is a file next to the archive holding exactly its bytes, and the archive still
   holds what create wrote.  fs0 is whatever the directory held before. *)
Theorem C01_directory_after_roundtrip :
  forall (fs fs0 : fsmap) (srcs : list (list Z)) (arch : list Z) (v : bool),
  forallb (src_readable fs) srcs = true -> forallb src_83 srcs = true ->
  negb (existsb (Z.eqb 0) (dirname arch)) = true ->
  k7_encoded_size (entries fs srcs) < 21504 ->
  let dest := fun s => path_join (dirname arch) (src_catname s) in
  NoDup (map dest srcs) -> ~ In arch (map dest srcs) ->
  exists raw,
    o_effects (tar_create v fs arch srcs) = [WriteFile arch raw] /\
    let after := apply_effects (apply_effects fs0 (o_effects (tar_create v fs arch srcs)))
                               (o_effects (tar_extract v None arch raw)) in
    (forall s, In s srcs -> fs_read after (dest s) = Some (src_content fs s)) /\
    fs_read after arch = Some raw.
Proof. exact tape_roundtrip_directory. Qed.
Print Assumptions C01_directory_after_roundtrip.
Example C01_example_distinct_destinations :
  let dest := fun s => path_join (dirname [111;47;116;46;107;55]) (src_catname s) in
  NoDup (map dest ex_srcs) /\ ~ In [111;47;116;46;107;55] (map dest ex_srcs).
Proof.
  vm_compute. split.
  - repeat constructor; cbn; intuition discriminate.
  - intuition discriminate.
Qed.
