(* Props/C01.v — tape archive round trip: create, then list/extract, returns every file intact. *)
Require Import PyBase Tape K7 TapeProofs.
Open Scope Z_scope.

(* for every ordered list of readable sources with 8.3 ASCII names (any case, with or without
   extension or ',a' marker, reached through any directory) whose encoded size fits the tape:
   create succeeds and writes one archive; listing it names exactly those files in order;
   extracting it writes, in order, each file under its upper-cased 8.3 name next to the archive
   with exactly the source's bytes (any content: empty, marker-imitating, any size class).
   With pairwise distinct catalogue names the directory therefore ends up holding every file
   byte for byte. *)
Theorem C01_tape_roundtrip :
  forall (fs : fsmap) (srcs : list (list Z)) (arch : list Z) (v : bool),
  forallb (src_readable fs) srcs = true -> forallb src_83 srcs = true ->
  negb (existsb (Z.eqb 0) (dirname arch)) = true ->
  k7_encoded_size (entries fs srcs) < 21504 ->
  exists raw,
    o_status (tar_create v fs arch srcs) = 0 /\
    o_effects (tar_create v fs arch srcs) = [WriteFile arch raw] /\
    o_status (tar_list false raw) = 0 /\
    o_lines (tar_list false raw) = map src_catname srcs /\
    o_status (tar_extract v None arch raw) = 0 /\
    o_effects (tar_extract v None arch raw) =
      map (fun s => WriteFile (path_join (dirname arch) (src_catname s)) (src_content fs s)) srcs.
Proof. exact tape_roundtrip. Qed.
Print Assumptions C01_tape_roundtrip.

(* non-vacuity: three files, one empty, one whose payload imitates a block marker, in a dotted directory *)
Definition ex_fs : fsmap := [([100;46;120;47;97;46;98;97;115], [1;1;1;60;90;255;2;0]); ([98], []); ([99;46;99;115;118], [0])].
Definition ex_srcs : list (list Z) := [[100;46;120;47;97;46;98;97;115;44;65]; [98]; [99;46;99;115;118]].
Example C01_example_hyps : forallb (src_readable ex_fs) ex_srcs = true /\ forallb src_83 ex_srcs = true.
Proof. vm_compute. split; reflexivity. Qed.
Example C01_example_names : map src_catname ex_srcs = [[65;46;66;65;83]; [66;46]; [67;46;67;83;86]].
Proof. vm_compute. reflexivity. Qed.
