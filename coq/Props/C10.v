(* Props/C10.v — disk side placement (--eos, overflow to the next side) matches report and image. *)
Require Import PyBase GenDisk Disk ThomsonDos DiskDefs DiskLoopProofs DiskExactProofs.
Open Scope Z_scope.

(* shape of the report of ANY create/add invocation (Proofs/DiskDefs.v: log_wf): sides open in
   the order 0,1,2,3, each at most once; every file item belongs to the side that is open; a file
   refused on side j ('too big') is followed by the opening of side j+1 and by the SAME file (name,
   extension, size, bytes) retried there - never split, never anywhere else; refused on the
   fourth side, it is dropped and nothing follows *)
Theorem C10_report_shape : forall (is_fd v init : bool) (fs : fsmap) (arch : list Z) (img : image) (srcs : list (list Z)),
  start_ok init img -> sources_ok fs -> srcs_printable srcs ->
  log_wf (-1) (d_log (inject_perform is_fd v init fs arch img srcs)) = true.
Proof. exact inject_report_shape. Qed.
Print Assumptions C10_report_shape.

(* files are stored in the order given, each at most once, each with its own bytes: the stored
   items, over all sides, are a subsequence of the sources (end-of-side markers, unreadable and
   over-long names removed) *)
Theorem C10_stored_in_order : forall (is_fd v init : bool) (fs : fsmap) (arch : list Z) (img : image) (srcs : list (list Z)),
  start_ok init img -> sources_ok fs -> srcs_printable srcs ->
  subseq (somes (map item_core (filter item_stored (all_files_of_log (d_log (inject_perform is_fd v init fs arch img srcs))))))
         (somes (map (source_item fs) srcs)).
Proof. exact inject_stores_sources_in_order. Qed.
Print Assumptions C10_stored_in_order.

(* once the fourth side is passed the remaining sources are dropped, yet the image is written and
   every side remains a valid file system *)
Theorem C10_always_written_and_valid : forall (is_fd v init : bool) (fs : fsmap) (arch : list Z) (img : image) (srcs : list (list Z)),
  start_ok init img -> sources_ok fs -> srcs_printable srcs ->
  d_effects (inject_perform is_fd v init fs arch img srcs) = [] \/
  exists img', d_effects (inject_perform is_fd v init fs arch img srcs) = [WriteFile arch (save_image is_fd img')] /\
    d_status (inject_perform is_fd v init fs arch img srcs) = 0 /\
    length img' = 4%nat /\ geo_image img' /\ forallb tool_readable img' = true /\
    (forallb names_printable (start_image init img) = true -> forallb names_printable img' = true) /\
    (forallb fsck_strict (start_image init img) = true -> forallb fsck_strict img' = true).
Proof. exact inject_keeps_fs. Qed.
Print Assumptions C10_always_written_and_valid.

(* the per-side sections of the report list exactly the files the image gained on that side *)
Theorem C10_sections_match_image : forall (is_fd v init : bool) (fs : fsmap) (arch : list Z) (img img' : image) (srcs : list (list Z)),
  start_ok init img -> sources_ok fs -> srcs_printable srcs ->
  d_effects (inject_perform is_fd v init fs arch img srcs) = [WriteFile arch (save_image is_fd img')] ->
  geo_image img' -> length img' = 4%nat ->
  forall i : nat, (i < 4)%nat ->
  exists old new merged : list dos_file,
    dos_files (nth i (start_image init img) []) = Some old /\
    dos_files (nth i img' []) = Some merged /\ interleave old new merged /\
    let stored := filter item_stored (files_of_log (Z.of_nat i) (d_log (inject_perform is_fd v init fs arch img srcs))) in
    map dos_view new = map item_dos stored /\ map file_view new = map item_view stored.
Proof. exact inject_report_matches_image. Qed.
Print Assumptions C10_sections_match_image.

(* refusals are exact: on a well-formed side, one store succeeds exactly when the side has enough
   free blocks and a free catalogue entry (never used, or deleted), and is refused ('too big')
   exactly otherwise - so a file moves to the next side only when it does not fit on this one *)
Theorem C10_refusal_is_exact : forall (sd : side) (content name ext : list Z) (kind dtype : Z),
  tool_readable sd = true -> write_args_ok name ext kind dtype content = true ->
  (snd (write_file sd content name ext kind dtype) = Ok tt <->
   needed_blocks (zlen content) <= free_count sd /\ has_free_slot sd = true) /\
  (snd (write_file sd content name ext kind dtype) = Err EValue <->
   free_count sd < needed_blocks (zlen content) \/ has_free_slot sd = false).
Proof. exact write_file_refusal_exact. Qed.
Print Assumptions C10_refusal_is_exact.
