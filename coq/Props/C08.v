(* Props/C08.v — any well-formed third-party tape is read exactly; list and extract agree. *)
Require Import PyBase Tape K7 TapeProofs TapeStateProofs EffectState TapeForeignState.
Open Scope Z_scope.

(* K7 raw files: [raw] follows the MO5 format and encodes [files] (Spec/K7.v): idle gaps of any
   length and content not containing the read marker, leader runs of three or more 01, any total
   length, payloads of 0..254 bytes of any content, length byte 0 meaning 256.
   Both actions then recover exactly these files: names (fields stripped), order, bytes, sizes,
   block counts and first-block positions. *)
Theorem C08_third_party_tape_read :
  forall (raw : list Z) (files : list k7_file) (v : bool) (into : option (list Z)) (arch : list Z),
  K7 raw files -> forallb k7_file_ok files = true ->
  forallb (no_nul_path (target_of into arch)) files = true ->
  tar_list v raw = mkOutcome 0 (map (k7_line v) (k7_positions 0 files)) [] None /\
  tar_extract v into arch raw =
    mkOutcome 0 (map (k7_line v) (k7_positions 0 files))
              (mkdir_of into ++ map (k7_write (target_of into arch)) files) None.
Proof. exact tape_third_party_read. Qed.
Print Assumptions C08_third_party_tape_read.

(* with NO well-formedness assumption: the two loops print the same lines and end the same way *)
Theorem C08_list_extract_agree :
  forall (raw : list Z) (v : bool) (into : option (list Z)) (arch : list Z),
  (o_lines (tar_list v raw) = o_lines (tar_extract v into arch raw) /\
   o_status (tar_list v raw) = o_status (tar_extract v into arch raw) /\
   o_crash (tar_list v raw) = o_crash (tar_extract v into arch raw)) \/
  (o_crash (tar_extract v into arch raw) = Some EValue /\
   exists more, o_lines (tar_list v raw) = o_lines (tar_extract v into arch raw) ++ more).
Proof. exact tape_list_extract_agree. Qed.
Print Assumptions C08_list_extract_agree.

(* non-vacuity: a two-file tape with a 2-byte gap, leader runs of 3 and 5, a data-less file *)
Definition ex_f1 : k7_file := mkK7 [65;32;32;32;32;32;32;32] [66;65;83] 0 0 [[1;1;1;60;90]; [7]].
Definition ex_f2 : k7_file := mkK7 [66;32;32;32;32;32;32;32] [32;32;32] 2 0 [].
Definition ex_raw : list Z :=
  [0;60] ++ repeat 1 3 ++ k7_marker ++ k7_body 0 (k7_leader_payload ex_f1) ++
  repeat 1 5 ++ k7_marker ++ k7_body 1 [1;1;1;60;90] ++ [90;1] ++ repeat 1 3 ++ k7_marker ++ k7_body 1 [7] ++
  repeat 1 4 ++ k7_marker ++ k7_body 255 [] ++
  repeat 1 3 ++ k7_marker ++ k7_body 0 (k7_leader_payload ex_f2) ++ repeat 1 3 ++ k7_marker ++ k7_body 255 [] ++ [0;0].
Example C08_example_lines : o_lines (tar_list false ex_raw) = [[65;46;66;65;83]; [66;46]].
Proof. vm_compute. reflexivity. Qed.
Example C08_example_ok : forallb k7_file_ok [ex_f1; ex_f2] = true.
Proof. vm_compute. reflexivity. Qed.

(* from effects to the state of the destination: whatever it held before (fs0 is arbitrary), once
   the tape is extracted every file it encodes is read back with exactly its bytes under its
   name, provided no two files of the tape claim one path (the last one would win) *)
Theorem C08_directory_after_extract :
  forall (raw : list Z) (files : list k7_file) (v : bool) (into : option (list Z)) (arch : list Z) (fs0 : fsmap),
  K7 raw files -> forallb k7_file_ok files = true ->
  forallb (no_nul_path (TapeProofs.target_of into arch)) files = true ->
  NoDup (write_paths (o_effects (tar_extract v into arch raw))) ->
  forall f : k7_file, In f files ->
    fs_read (apply_effects fs0 (o_effects (tar_extract v into arch raw)))
            (path_join (TapeProofs.target_of into arch) (safe_label (k7_leader f))) = Some (k_content f).
Proof. exact tape_third_party_directory. Qed.
Print Assumptions C08_directory_after_extract.

(* on the example tape: distinct destinations, and the data-less file B. replaces a longer file
   that lay there before *)
Example C08_example_overwrite :
  let es := o_effects (tar_extract false None [100;47;116;46;107;55] ex_raw) in
  NoDup (write_paths es) /\
  fs_read (apply_effects [([100;47;66;46], [9;9;9;9])] es) [100;47;66;46] = Some [] /\
  fs_read (apply_effects [] es) [100;47;65;46;66;65;83] = Some [1;1;1;60;90;7].
Proof.
  vm_compute. split; [|split; reflexivity].
  repeat constructor; cbn; intuition discriminate.
Qed.
