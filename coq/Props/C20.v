(* Props/C20.v — archive creation is a pure function of its sources; reading modifies nothing.
   Level: PARTIAL for the file-system half (that list/extract and the sources' bytes on disk are
   untouched is observed by the harness: hashes before/after on real runs); full for the byte half. *)
Require Import PyBase Tape Disk DiskDefs CliProofs FindingProofs.
Open Scope Z_scope.

(* the bytes of a created tape depend only on the ordered (catalogue fields, content) of the
   sources: not on verbosity, on the archive path, on old bytes at the target (never read), nor on
   how the sources are reached *)
Theorem C20_tape_create_pure : forall (fs1 fs2 : fsmap) (s1 s2 : list (list Z)) (v1 v2 : bool) (a1 a2 : list Z),
  map (tape_key fs1) s1 = map (tape_key fs2) s2 ->
  written_bytes (o_effects (tar_create v1 fs1 a1 s1)) = written_bytes (o_effects (tar_create v2 fs2 a2 s2)) /\
  o_status (tar_create v1 fs1 a1 s1) = o_status (tar_create v2 fs2 a2 s2).
Proof. exact tape_create_pure. Qed.
Print Assumptions C20_tape_create_pure.

(* ... the catalogue fields depending on the base name only: directories, dotted or not, do not matter *)
Theorem C20_tape_fields_from_basename : forall (dir base : list Z),
  existsb (Z.eqb 47) base = false ->
  fst (source_fields (dir ++ [47] ++ base)) = fst (source_fields base).
Proof. exact tape_fields_from_basename. Qed.
Print Assumptions C20_tape_fields_from_basename.

Theorem C20_disk_create_pure : forall (is_fd : bool) (fs1 fs2 : fsmap) (s1 s2 : list (list Z)) (v1 v2 : bool) (a1 a2 : list Z),
  map (disk_key fs1) s1 = map (disk_key fs2) s2 ->
  written_bytes (d_effects (disk_create is_fd v1 fs1 a1 s1)) = written_bytes (d_effects (disk_create is_fd v2 fs2 a2 s2)) /\
  d_status (disk_create is_fd v1 fs1 a1 s1) = d_status (disk_create is_fd v2 fs2 a2 s2) /\
  d_log (disk_create is_fd v1 fs1 a1 s1) = d_log (disk_create is_fd v2 fs2 a2 s2).
Proof. exact disk_create_pure. Qed.
Print Assumptions C20_disk_create_pure.

Theorem C20_disk_fields_from_basename : forall (fs : fsmap) (dir base : list Z),
  existsb (Z.eqb 47) base = false ->
  let '(n1, e1, o1, _) := split_source (dir ++ [47] ++ base) in
  let '(n2, e2, o2, _) := split_source base in
  n1 = n2 /\ e1 = e2 /\ o1 = o2.
Proof. exact disk_fields_from_basename. Qed.
Print Assumptions C20_disk_fields_from_basename.

(* list never writes; what extract writes beside the archive lies in a sideN sub-directory (disk,
   hence never the archive itself) or is a single component of the archive's directory (tape) *)
Theorem C20_reads_are_readonly : forall (v is_fd : bool) (raw arch : list Z) (p c : list Z),
  o_effects (tar_list v raw) = [] /\ d_effects (disk_list is_fd v raw) = [] /\
  (In (WriteFile p c) (d_effects (disk_extract is_fd v None arch raw)) ->
     exists (i : nat) l, (i < 4)%nat /\ p = path_join (side_dir (dirname arch) i) l /\ existsb (Z.eqb 47) l = false) /\
  (In (WriteFile p c) (o_effects (tar_extract v None arch raw)) ->
     exists l, p = path_join (dirname arch) l /\ existsb (Z.eqb 47) l = false).
Proof. exact reads_write_nothing_else. Qed.
Print Assumptions C20_reads_are_readonly.

(* REFUTED for one family of archives (finding F18, recorded in known_findings.json): 'extract
   leaves the archive byte-identical' is false of the faithful model - hence of the tool - when a
   tape holds a member whose NAME.EXT is the archive's own file name and no --into is given: the
   member is written beside the archive, that is over it.  The witness (IN.K7 created from
   x/IN.K7 = 'hello', then extracted) is evaluated here and replayed on the real tool by the check. *)
Theorem C20_tape_extract_keeps_archive_refuted :
  exists (fs : fsmap) (arch : list Z) (srcs : list (list Z)) (raw c : list Z),
    o_status (tar_create false fs arch srcs) = 0 /\
    o_effects (tar_create false fs arch srcs) = [WriteFile arch raw] /\
    o_status (tar_extract false None arch raw) = 0 /\
    o_effects (tar_extract false None arch raw) = [WriteFile arch c] /\ c <> raw.
Proof. exact tape_extract_can_overwrite_its_archive. Qed.
Print Assumptions C20_tape_extract_keeps_archive_refuted.
