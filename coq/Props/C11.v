(* Props/C11.v — both disk flavours hold the same disk; load/save is identity; geometry is fixed. *)
Require Import PyBase Disk ThomsonDos DiskDefs DiskGeoProofs.
Open Scope Z_scope.

(* the same sources given to the SDDrive tool and to the emulator tool: same report, and one and
   the same image saved in the two flavours *)
Theorem C11_flavours_same_disk : forall (v : bool) (fs : fsmap) (arch1 arch2 : list Z) (srcs : list (list Z)),
  d_text (disk_create true v fs arch1 srcs) = d_text (disk_create false v fs arch2 srcs) /\
  d_log (disk_create true v fs arch1 srcs) = d_log (disk_create false v fs arch2 srcs) /\
  d_status (disk_create true v fs arch1 srcs) = d_status (disk_create false v fs arch2 srcs) /\
  ((d_effects (disk_create true v fs arch1 srcs) = [] /\ d_effects (disk_create false v fs arch2 srcs) = []) \/
   exists img, geo_image img /\ length img = 4%nat /\
     d_effects (disk_create true v fs arch1 srcs) = [WriteFile arch1 (save_image true img)] /\
     d_effects (disk_create false v fs arch2 srcs) = [WriteFile arch2 (save_image false img)]).
Proof. exact create_same_disk. Qed.
Print Assumptions C11_flavours_same_disk.

(* ... the .sd being the .fd with 256 bytes of FF after every sector; lengths are fixed *)
Theorem C11_sd_is_fd_plus_padding : forall img : image, geo_image img ->
  payloads_of (save_image false img) = save_image true img /\
  normalise_padding (save_image false img) = save_image false img /\
  zlen (save_image true img) = Z.of_nat (length img) * 327680 /\
  zlen (save_image false img) = Z.of_nat (length img) * 655360.
Proof. exact save_flavours. Qed.
Print Assumptions C11_sd_is_fd_plus_padding.

(* loading any valid image and saving it reproduces it: byte for byte for .fd (1, 2 or 4 sides) *)
Theorem C11_load_save_fd : forall (raw : list Z) (n : Z),
  (n = 1 \/ n = 2 \/ n = 4) -> zlen raw = n * 327680 ->
  exists img, load_image true raw = Ok img /\ save_image true img = raw /\
              length img = Z.to_nat n /\ geo_image img.
Proof. exact load_save_fd. Qed.
Print Assumptions C11_load_save_fd.

(* payload-identical with FF padding for .sd *)
Theorem C11_load_save_sd : forall raw : list Z,
  zlen raw = 4 * 655360 ->
  exists img, load_image false raw = Ok img /\ save_image false img = normalise_padding raw /\
              save_image true img = payloads_of raw /\ length img = 4%nat /\ geo_image img.
Proof. exact load_save_sd. Qed.
Print Assumptions C11_load_save_sd.

Theorem C11_save_load : forall (is_fd : bool) (img : image),
  geo_image img -> length img = 4%nat -> load_image is_fd (save_image is_fd img) = Ok img.
Proof. exact save_load. Qed.
Print Assumptions C11_save_load.

(* a no-op --add on a valid 4-sided emulator image rewrites it unchanged *)
Theorem C11_noop_add_identity : forall (v : bool) (fs : fsmap) (arch raw : list Z) (img : image),
  zlen raw = 4 * 327680 -> load_image true raw = Ok img ->
  Forall (fun sd => forallb st_valid (fat sd) = true) img ->
  d_status (disk_add true v fs arch raw []) = 0 /\
  d_effects (disk_add true v fs arch raw []) = [WriteFile arch raw].
Proof. exact noop_add_identity_fd. Qed.
Print Assumptions C11_noop_add_identity.

(* library level: a payload assignment of ANY length (0..600 and beyond) keeps the sector's size *)
Theorem C11_payload_assignment : forall (old v : list Z), length old = 256%nat ->
  set_payload old v = firstn (Nat.min (length v) 256) v ++ skipn (Nat.min (length v) 256) old /\
  length (set_payload old v) = 256%nat.
Proof. exact set_payload_exact. Qed.
Print Assumptions C11_payload_assignment.

(* whatever is stored, the archive's length and sector boundaries never move *)
Theorem C11_geometry_fixed : forall (is_fd v : bool) (fs : fsmap) (arch raw : list Z) (srcs : list (list Z)) (img0 : image) (p c : list Z),
  load_image is_fd raw = Ok img0 -> geo_image img0 ->
  In (WriteFile p c) (d_effects (disk_add is_fd v fs arch raw srcs)) ->
  p = arch /\ exists img, c = save_image is_fd img /\ geo_image img /\ length img = length img0.
Proof. exact add_geometry_fixed. Qed.
Print Assumptions C11_geometry_fixed.

(* non-vacuity: a 600-byte value assigned to a sector *)
Example C11_example : length (set_payload (repeat 229 256) (repeat 7 600)) = 256%nat.
Proof. vm_compute. reflexivity. Qed.
