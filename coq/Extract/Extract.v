(* Extract/Extract.v — extraction of the executable model and of the Spec oracles.
   Directives in force: those of ExtrOcamlBasic only (bool, option, unit, list, prod, sumbool,
   sumor -> OCaml types); Z, positive, N, nat stay inductive; no Extract Constant. *)
Require Extraction. Require ExtrOcamlBasic.
Require Import PyBase GenText Text TextSpec GenTape Tape K7 GenBasic Basic Mo5Basic GenDisk Disk ThomsonDos CliTypes GenCli Cli.
Extraction Language OCaml.
Extraction "model.ml" nl_run prettier_run pretty_spec nl_spec chomp
  nl_default_start nl_default_increment nl_default_width
  tar_create tar_list tar_extract k7_decode doc_entry doc_path k7_encoded_size k7_file_image
  tokenize_program lst_to_ascii ascii_to_lst detok upper_outside_strings ref_encode ref_source line_number line_text
  readlines_file readlines_stdin program_records
  disk_create disk_add disk_list disk_extract load_image save_image set_payload
  sides_of_raw side_geometry fsck_read fsck_strict dos_files fat count_status st_free st_reserved sd_slot_ok doc_disk_kind cat_entries e_live
  find_sub slice splice rstrip_py strip_py upper_ascii dec undec take_digits basename dirname path_join is_space_py ljust
  tar_main disk_main cli_status cli_effects parse tar_cli disk_cli nl_cli prettier_cli lst2bas_cli bas2lst_cli.
