(* Py/PyBase.v — micro-models of the Python / stdlib behaviour the code relies on.
   Definitions only (no proofs): the model must still run when a proof breaks.
   Every definition here is validated differentially against CPython by
   tools/corr (suite 'py'), not proved against it: it is part of the trusted base. *)
From Coq Require Export ZArith List Bool.
Export ListNotations.
Open Scope Z_scope.

(* A byte / a code point is a Z; bytes and str are [list Z]. *)
Definition byteb (b : Z) : bool := (0 <=? b) && (b <? 256).
Definition bytesb (l : list Z) : bool := forallb byteb l.

Definition zlen {A} (l : list A) : Z := Z.of_nat (length l).

(* result type for code that may raise *)
Inductive err := EValue | EIndex | EType | EOverflow | EUnicode | ENoEnt | EOther.
Inductive res (A : Type) := Ok (a : A) | Err (e : err).
Arguments Ok {A} a.
Arguments Err {A} e.
Definition bind {A B} (r : res A) (f : A -> res B) : res B :=
  match r with Ok a => f a | Err e => Err e end.

(* ---- sequence primitives ------------------------------------------- *)
(* x[i:j] with 0 <= i, 0 <= j (non-negative indices only: the code never uses
   negative ones except x[:-k], modelled by [drop_last]); clamps like Python. *)
Definition slice {A} (i j : nat) (l : list A) : list A := firstn (j - i) (skipn i l).
(* b[i:j] = v on a bytearray: faithfully size-changing when len v <> j - i *)
Definition splice {A} (i j : nat) (v l : list A) : list A :=
  firstn i l ++ v ++ skipn (Nat.max i j) l.
Definition drop_last {A} (k : nat) (l : list A) : list A := firstn (length l - k) l.
Definition last_n {A} (k : nat) (l : list A) : list A := skipn (length l - k) l.

Fixpoint zeqb_list (a b : list Z) : bool :=
  match a, b with
  | [], [] => true
  | x :: a', y :: b' => (x =? y) && zeqb_list a' b'
  | _, _ => false
  end.

Fixpoint starts_with (p l : list Z) : bool :=
  match p, l with
  | [], _ => true
  | x :: p', y :: l' => (x =? y) && starts_with p' l'
  | _ :: _, [] => false
  end.

(* bytes.find(pat, start): offset (from the beginning of [l]) of the first
   occurrence of [pat] at or after [start]; recursion on the haystack. *)
Fixpoint find_from (pat l : list Z) (off : nat) : option nat :=
  match l with
  | [] => match pat with [] => Some off | _ => None end
  | _ :: l' => if starts_with pat l then Some off else find_from pat l' (S off)
  end.
Definition find_sub (pat l : list Z) (start : nat) : option nat :=
  if Nat.leb start (length l) then find_from pat (skipn start l) start else None.

(* str.rfind(c) for a single character: index of the last occurrence *)
Fixpoint rfind_aux (c : Z) (l : list Z) (i : nat) (acc : option nat) : option nat :=
  match l with
  | [] => acc
  | x :: l' => rfind_aux c l' (S i) (if x =? c then Some i else acc)
  end.
Definition rfind_char (c : Z) (l : list Z) : option nat := rfind_aux c l 0%nat None.

(* ---- characters ---------------------------------------------------- *)
(* str.upper() restricted to ASCII code points (the properties quantify over
   ASCII names and listings; non-ASCII text is outside the modelled alphabet
   for upper-casing and is left unchanged by the model). *)
Definition upper_char (c : Z) : Z := if (97 <=? c) && (c <=? 122) then c - 32 else c.
Definition upper_ascii (l : list Z) : list Z := map upper_char l.

Definition is_digit (c : Z) : bool := (48 <=? c) && (c <=? 57).
Definition is_digit19 (c : Z) : bool := (49 <=? c) && (c <=? 57).

(* str.isspace() per code point (Python 3.12 / Unicode 15): the set stripped by
   str.rstrip() and str.strip() without argument. *)
Definition is_space_py (c : Z) : bool :=
  ((9 <=? c) && (c <=? 13)) || ((28 <=? c) && (c <=? 32)) || (c =? 133) || (c =? 160)
  || (c =? 5760) || ((8192 <=? c) && (c <=? 8202)) || (c =? 8232) || (c =? 8233)
  || (c =? 8239) || (c =? 8287) || (c =? 12288).
(* bytes.strip()/rstrip() whitespace for bytes: b' \t\n\r\x0b\x0c' *)
Definition is_space_bytes (c : Z) : bool := ((9 <=? c) && (c <=? 13)) || (c =? 32).

Fixpoint lstrip_by (p : Z -> bool) (l : list Z) : list Z :=
  match l with
  | c :: l' => if p c then lstrip_by p l' else l
  | [] => []
  end.
(* rstrip: drop the maximal suffix satisfying p (structural, no rev) *)
Fixpoint rstrip_by (p : Z -> bool) (l : list Z) : list Z :=
  match l with
  | [] => []
  | c :: l' => match rstrip_by p l' with
               | [] => if p c then [] else [c]
               | r => c :: r
               end
  end.
Definition strip_by (p : Z -> bool) (l : list Z) : list Z := lstrip_by p (rstrip_by p l).
Definition rstrip_nl (l : list Z) : list Z := rstrip_by (fun c => c =? 10) l.   (* .rstrip('\n') *)
Definition rstrip_py (l : list Z) : list Z := rstrip_by is_space_py l.          (* .rstrip() *)
Definition strip_py (l : list Z) : list Z := strip_by is_space_py l.            (* .strip() *)
Definition rstrip_sp (l : list Z) : list Z := rstrip_by is_space_py l.

(* ---- decimal rendering: str(int) and int(str) ----------------------- *)
Fixpoint dec_fuel (f : nat) (n : Z) : list Z :=
  match f with
  | O => []
  | S f' => if n <? 10 then [48 + n] else dec_fuel f' (n / 10) ++ [48 + n mod 10]
  end.
Definition dec_fuel_of (n : Z) : nat := S (Z.to_nat (Z.log2 n)).
Definition dec_nonneg (n : Z) : list Z := dec_fuel (dec_fuel_of n) n.
Definition dec (n : Z) : list Z := if n <? 0 then 45 :: dec_nonneg (- n) else dec_nonneg n.

Definition undec (ds : list Z) : Z := fold_left (fun a c => a * 10 + (c - 48)) ds 0.
Fixpoint take_digits (l : list Z) : list Z :=
  match l with
  | c :: l' => if is_digit c then c :: take_digits l' else []
  | [] => []
  end.

(* s + ' ' * (w - len s) when len s < w *)
Definition ljust (w : Z) (s : list Z) : list Z :=
  if zlen s <? w then s ++ repeat 32 (Z.to_nat (w - zlen s)) else s.

(* ---- line splitting ------------------------------------------------- *)
(* Text-mode file with universal newlines (open(p,'rt').readlines()):
   '\r\n', '\r', '\n' all end a line and are translated to '\n'. *)
Fixpoint readlines_univ_aux (l cur : list Z) (fuel : nat) : list (list Z) :=
  match fuel with
  | O => []
  | S fuel' =>
    match l with
    | [] => match cur with [] => [] | _ => [rev cur] end
    | 13 :: 10 :: l' => rev (10 :: cur) :: readlines_univ_aux l' [] fuel'
    | 13 :: l' => rev (10 :: cur) :: readlines_univ_aux l' [] fuel'
    | 10 :: l' => rev (10 :: cur) :: readlines_univ_aux l' [] fuel'
    | c :: l' => readlines_univ_aux l' (c :: cur) fuel'
    end
  end.
Definition readlines_file (l : list Z) : list (list Z) := readlines_univ_aux l [] (S (length l)).
(* sys.stdin on POSIX: newline='\n', lines end at '\n' only, nothing translated *)
Fixpoint readlines_lf_aux (l cur : list Z) : list (list Z) :=
  match l with
  | [] => match cur with [] => [] | _ => [rev cur] end
  | 10 :: l' => rev (10 :: cur) :: readlines_lf_aux l' []
  | c :: l' => readlines_lf_aux l' (c :: cur)
  end.
Definition readlines_stdin (l : list Z) : list (list Z) := readlines_lf_aux l [].

(* ---- posixpath ------------------------------------------------------ *)
(* index just after the last '/', or 0 *)
Definition after_last_slash (p : list Z) : nat :=
  match rfind_char 47 p with Some i => S i | None => 0%nat end.
Definition basename (p : list Z) : list Z := skipn (after_last_slash p) p.
(* posixpath.dirname: head = p[:i]; if head and head != '/'*len(head): head = head.rstrip('/') *)
Definition dirname (p : list Z) : list Z :=
  let head := firstn (after_last_slash p) p in
  if forallb (fun c => c =? 47) head then head else rstrip_by (fun c => c =? 47) head.
(* posixpath.join(a, b) for two components *)
Definition ends_with_slash (a : list Z) : bool :=
  match rev a with c :: _ => c =? 47 | [] => false end.
Definition path_join (a b : list Z) : list Z :=
  match b with
  | 47 :: _ => b
  | _ => match a with
         | [] => b
         | _ => if ends_with_slash a then a ++ b else a ++ [47] ++ b
         end
  end.

(* ---- the part of the file system a CLI action reads: path -> content ---- *)
Definition fsmap := list (list Z * list Z).
Fixpoint fs_read (fs : fsmap) (p : list Z) : option (list Z) :=
  match fs with
  | [] => None
  | (q, c) :: r => if zeqb_list p q then Some c else fs_read r p
  end.

(* ---- what a CLI action does to the file system, in order ---- *)
Inductive effect := WriteFile (path : list Z) (content : list Z) | MkDir (path : list Z).
