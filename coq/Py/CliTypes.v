(* Py/CliTypes.v — the part of an argparse parser definition the CLI model needs *)
Require Import PyBase.
Inductive optkind :=
| OConst (dest value : list Z)        (* action="store_const" *)
| OTrue (dest : list Z)               (* action="store_true" *)
| OStore (dest : list Z) (is_int : bool).   (* takes one argument *)
Record optspec := mkOpt { o_flags : list (list Z); o_kind : optkind; o_in_group : bool }.
(* positionals: (name, nargs = "*") ; group_required: the mutually exclusive group is required *)
Record clispec := mkCli { c_opts : list optspec; c_positionals : list (list Z * bool); c_allow_abbrev : bool; c_group_required : bool }.
