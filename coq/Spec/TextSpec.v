(* Spec/TextSpec.v — what C16 and C17 demand, written from the property texts, not from the code.
   Mentions no Model or Gen definition. *)
Require Import PyBase.
Open Scope Z_scope.

(* ---- C17: a string literal runs from a double quote to the next double quote (or the end
   of the line); letters outside literals are upper-cased; everything else is unchanged. *)
Fixpoint pretty_spec (in_lit : bool) (l : list Z) : list Z :=
  match l with
  | [] => []
  | c :: r => if c =? 34 then c :: pretty_spec (negb in_lit) r
              else (if in_lit then c else upper_char c) :: pretty_spec in_lit r
  end.

(* ---- C16 *)
Definition begins_numbered (l : list Z) : bool :=
  match l with c :: _ => is_digit19 c | [] => false end.
Definition leading_number (l : list Z) : Z := undec (take_digits l).

(* [prev] = the previous line's number, None for the first line *)
Fixpoint nl_spec (start inc width : Z) (prev : option Z) (lines : list (list Z)) : list (list Z) :=
  match lines with
  | [] => []
  | l :: r =>
    if begins_numbered l then l :: nl_spec start inc width (Some (leading_number l)) r
    else let n := match prev with None => start | Some p => p + inc end in
         (ljust width (dec n) ++ [32] ++ l) :: nl_spec start inc width (Some n) r
  end.

(* lines as the tool sees them: terminators removed *)
Definition chomp (l : list Z) : list Z := rstrip_nl l.
