(* Spec/Mo5Basic.v — the MO5 tokenized-BASIC program image and the reference vocabulary,
   written from the property texts (C13, C14) and the format description; mentions no Model or
   Gen definition.  The vocabulary is the 152-entry MO5 BASIC token list frozen here (keyword,
   code): one-byte codes 80..EB for statements and operators, two-byte codes FF80..FFB2 for
   functions.  (APS/SQL look like typos for ABS/SQR in the tool's table; no authoritative list
   is available offline, so the pinned table is the reference and this is only noted.) *)
Require Import PyBase.
Open Scope Z_scope.

Definition mo5_vocabulary : list (list Z * Z) := [
  ([69; 78; 68], 128);
  ([70; 79; 82], 129);
  ([78; 69; 88; 84], 130);
  ([68; 65; 84; 65], 131);
  ([68; 73; 77], 132);
  ([82; 69; 65; 68], 133);
  ([71; 79], 135);
  ([82; 85; 78], 136);
  ([73; 70], 137);
  ([82; 69; 83; 84; 79; 82; 69], 138);
  ([82; 69; 84; 85; 82; 78], 139);
  ([82; 69; 77], 140);
  ([39], 141);
  ([83; 84; 79; 80], 142);
  ([69; 76; 83; 69], 143);
  ([84; 82; 79; 78], 144);
  ([84; 82; 79; 70; 70], 145);
  ([68; 69; 70; 83; 84; 82], 146);
  ([68; 69; 70; 73; 78; 84], 147);
  ([68; 69; 70; 83; 78; 71], 148);
  ([79; 78], 150);
  ([84; 85; 78; 69], 151);
  ([69; 82; 82; 79; 82], 152);
  ([82; 69; 83; 85; 77; 69], 153);
  ([65; 85; 84; 79], 154);
  ([68; 69; 76; 69; 84; 69], 155);
  ([76; 79; 67; 65; 84; 69], 156);
  ([67; 76; 83], 157);
  ([67; 79; 78; 83; 79; 76; 69], 158);
  ([80; 83; 69; 84], 159);
  ([77; 79; 84; 79; 82], 160);
  ([83; 75; 73; 80; 70], 161);
  ([69; 88; 69; 67], 162);
  ([66; 69; 69; 80], 163);
  ([67; 79; 76; 79; 82], 164);
  ([76; 73; 78; 69], 165);
  ([66; 79; 88], 166);
  ([65; 84; 84; 82; 66], 168);
  ([68; 69; 70], 169);
  ([80; 79; 75; 69], 170);
  ([80; 82; 73; 78; 84], 171);
  ([67; 79; 78; 84], 172);
  ([76; 73; 83; 84], 173);
  ([67; 76; 69; 65; 82], 174);
  ([68; 79; 83], 175);
  ([78; 69; 87], 177);
  ([83; 65; 86; 69], 178);
  ([76; 79; 65; 68], 179);
  ([77; 69; 82; 71; 69], 180);
  ([79; 80; 69; 78], 181);
  ([67; 76; 79; 83; 69], 182);
  ([73; 78; 80; 69; 78], 183);
  ([80; 69; 78], 184);
  ([80; 76; 65; 89], 185);
  ([84; 65; 66], 186);
  ([84; 79], 187);
  ([83; 85; 66], 188);
  ([70; 78; 67], 189);
  ([83; 80; 67], 190);
  ([85; 83; 73; 78; 71], 191);
  ([85; 83; 82], 192);
  ([69; 82; 76], 193);
  ([69; 82; 82], 194);
  ([79; 70; 70], 195);
  ([84; 72; 69; 78], 196);
  ([78; 79; 84], 197);
  ([83; 84; 69; 80], 198);
  ([43], 199);
  ([45], 200);
  ([42], 201);
  ([47], 202);
  ([94], 203);
  ([65; 78; 68], 204);
  ([79; 82], 205);
  ([88; 79; 82], 206);
  ([69; 81; 86], 207);
  ([73; 77; 80], 208);
  ([77; 79; 68], 209);
  ([62], 211);
  ([61], 212);
  ([60], 213);
  ([68; 83; 75; 73; 78], 214);
  ([68; 83; 75; 79; 36], 215);
  ([75; 73; 76; 76], 216);
  ([78; 65; 77; 69], 217);
  ([70; 73; 69; 76; 68], 218);
  ([76; 83; 69; 84], 219);
  ([82; 83; 69; 84], 220);
  ([80; 85; 84], 221);
  ([71; 69; 84], 222);
  ([86; 69; 82; 73; 70; 89], 223);
  ([68; 69; 86; 73; 67; 69], 224);
  ([68; 73; 82], 225);
  ([70; 73; 76; 69; 83], 226);
  ([87; 82; 73; 84; 69], 227);
  ([85; 78; 76; 79; 65; 68], 228);
  ([66; 65; 67; 75; 85; 80], 229);
  ([67; 79; 80; 89], 230);
  ([67; 73; 82; 67; 76; 69], 231);
  ([80; 65; 73; 78; 84], 232);
  ([68; 82; 65; 87], 233);
  ([82; 69; 78; 85; 77], 234);
  ([83; 87; 65; 80], 235);
  ([83; 71; 78], 65408);
  ([73; 78; 84], 65409);
  ([65; 80; 83], 65410);
  ([70; 82; 69], 65411);
  ([83; 81; 76], 65412);
  ([76; 79; 71], 65413);
  ([69; 88; 80], 65414);
  ([67; 79; 83], 65415);
  ([83; 73; 78], 65416);
  ([84; 65; 78], 65417);
  ([80; 69; 69; 75], 65418);
  ([76; 69; 78], 65419);
  ([83; 84; 82; 36], 65420);
  ([86; 65; 76], 65421);
  ([65; 83; 67], 65422);
  ([67; 72; 82; 36], 65423);
  ([69; 79; 70], 65424);
  ([67; 73; 78; 84], 65425);
  ([67; 83; 78; 71], 65426);
  ([67; 68; 66; 76], 65427);
  ([70; 73; 88], 65428);
  ([72; 69; 88; 36], 65429);
  ([79; 67; 84; 36], 65430);
  ([83; 84; 73; 67; 75], 65431);
  ([83; 84; 82; 73; 71], 65432);
  ([71; 82; 36], 65433);
  ([76; 69; 70; 84; 36], 65434);
  ([82; 73; 71; 72; 84; 36], 65435);
  ([77; 73; 68; 36], 65436);
  ([73; 78; 83; 84; 82], 65437);
  ([86; 65; 82; 80; 84; 82], 65438);
  ([82; 78; 68], 65439);
  ([73; 78; 75; 69; 89; 36], 65440);
  ([73; 78; 80; 85; 84], 65441);
  ([67; 83; 82; 76; 73; 78], 65442);
  ([80; 79; 73; 78; 84], 65443);
  ([83; 67; 82; 69; 69; 78], 65444);
  ([80; 79; 83], 65445);
  ([80; 84; 82; 73; 71], 65446);
  ([68; 83; 75; 70], 65447);
  ([67; 86; 73], 65448);
  ([67; 86; 83], 65449);
  ([77; 75; 73; 36], 65451);
  ([77; 75; 83; 36], 65452);
  ([76; 79; 67], 65454);
  ([76; 79; 70], 65455);
  ([83; 80; 65; 67; 69; 36], 65456);
  ([83; 84; 82; 73; 78; 71; 36], 65457);
  ([68; 83; 75; 73; 36], 65458)
].

Fixpoint vocab_code (k : list Z) (tbl : list (list Z * Z)) : option Z :=
  match tbl with [] => None | (k', v) :: r => if zeqb_list k k' then Some v else vocab_code k r end.
Fixpoint vocab_word (v : Z) (tbl : list (list Z * Z)) : option (list Z) :=
  match tbl with [] => None | (k, v') :: r => if v =? v' then Some k else vocab_word v r end.
Definition code_of (k : list Z) : option Z := vocab_code k mo5_vocabulary.
Definition word_of (v : Z) : option (list Z) := vocab_word v mo5_vocabulary.

Definition u16 (n : Z) : list Z := [(n / 256) mod 256; n mod 256].
Definition code_bytes (v : Z) : list Z := if v <? 256 then [v] else u16 v.
Definition else_word : list Z := [69;76;83;69].
(* ELSE is stored preceded by a colon *)
Definition word_bytes (k : list Z) (v : Z) : list Z := (if zeqb_list k else_word then [58] else []) ++ code_bytes v.

(* ---------------- detokenizer: encoded line text -> characters ---------------- *)
(* a byte below 80 is itself; 80..FE is a one-byte token; FF xx a two-byte token; the colon the
   encoder puts before ELSE is not part of the text *)
Fixpoint expand (fuel : nat) (bs : list Z) : option (list Z) :=
  match fuel with
  | O => None
  | S fuel' =>
    match bs with
    | [] => Some []
    | 58 :: 143 :: r => match expand fuel' r with Some t => Some (else_word ++ t) | None => None end
    | 255 :: x :: r =>
      match word_of (65280 + x), expand fuel' r with Some w, Some t => Some (w ++ t) | _, _ => None end
    | b :: r =>
      if b <? 128 then match expand fuel' r with Some t => Some (b :: t) | None => None end
      else match word_of b, expand fuel' r with Some w, Some t => Some (w ++ t) | _, _ => None end
    end
  end.

(* ---------------- program image ---------------- *)
(* FF, 16-bit length of what follows, records (link, line number, text, 00), final 00 00.
   [records base bs]: parse records, checking that each link = address of the next record,
   addresses starting at [base]; returns (line number, encoded text) list. *)
Definition mo5_base : Z := 9636.   (* 25A4 *)
Fixpoint split_at_zero (bs : list Z) (acc : list Z) : option (list Z * list Z) :=
  match bs with
  | [] => None
  | 0 :: r => Some (rev acc, r)
  | b :: r => split_at_zero r (b :: acc)
  end.
Fixpoint records (fuel : nat) (addr : Z) (bs : list Z) : option (list (Z * list Z)) :=
  match fuel with
  | O => None
  | S fuel' =>
    match bs with
    | [0; 0] => Some []
    | lh :: ll :: nh :: nl :: r =>
      match split_at_zero r [] with
      | Some (text, rest) =>
        let next := addr + zlen text + 5 in
        if (lh * 256 + ll =? next mod 65536) then
          match records fuel' next rest with
          | Some recs => Some ((nh * 256 + nl, text) :: recs)
          | None => None
          end
        else None
      | None => None
      end
    | _ => None
    end
  end.
Definition program_records (img : list Z) : option (list (Z * list Z)) :=
  match img with
  | 255 :: lh :: ll :: body =>
    if (lh * 256 + ll =? zlen body mod 65536) && bytesb img then records (S (length body)) mo5_base body else None
  | _ => None
  end.
(* decode a whole image back to (line number, text) *)
Fixpoint expand_all (recs : list (Z * list Z)) : option (list (Z * list Z)) :=
  match recs with
  | [] => Some []
  | (n, bs) :: r =>
    match expand (S (length bs)) bs, expand_all r with
    | Some t, Some rs => Some ((n, t) :: rs)
    | _, _ => None
    end
  end.
Definition detok (img : list Z) : option (list (Z * list Z)) :=
  match program_records img with Some recs => expand_all recs | None => None end.

(* text upper-cased outside string literals (a literal runs from a double quote to the next
   one or to the end of the line) *)
Fixpoint upper_outside_strings (in_lit : bool) (l : list Z) : list Z :=
  match l with
  | [] => []
  | c :: r => if c =? 34 then c :: upper_outside_strings (negb in_lit) r
              else (if in_lit then c else upper_char c) :: upper_outside_strings in_lit r
  end.

(* a numbered listing line: digits 1-9 then digits, one optional blank, the text *)
Definition line_number (l : list Z) : Z := undec (take_digits l).
Definition line_text (l : list Z) : list Z :=
  let r := skipn (length (take_digits l)) l in
  let r := match rev r with 10 :: t => rev t | _ => r end in
  match r with 32 :: t => t | _ => r end.

(* ---------------- reference encoder over lexemes (C13) ---------------- *)
Inductive lexeme :=
| LKeyword (w : list Z)        (* a vocabulary word, written in any letter case *)
| LText (s : list Z)           (* identifiers, numbers: no delimiter, operator or quote inside *)
| LString (s : list Z) (closed : bool)   (* contents between the quotes *)
| LDelim (c : Z).              (* blank . , ( ) : ; and the one-character operators + - * / ^ < = > ' *)

Definition lex_source (x : lexeme) : list Z :=
  match x with
  | LKeyword w => w
  | LText s => s
  | LString s closed => [34] ++ s ++ (if closed then [34] else [])
  | LDelim c => [c]
  end.
Definition lex_encode (x : lexeme) : list Z :=
  match x with
  | LKeyword w => match code_of (upper_ascii w) with Some v => word_bytes (upper_ascii w) v | None => [] end
  | LText s => upper_ascii s
  | LString s closed => [34] ++ s ++ (if closed then [34] else [])
  | LDelim c => match code_of [c] with Some v => code_bytes v | None => [c] end
  end.
Definition ref_encode (lx : list lexeme) : list Z := flat_map lex_encode lx.
Definition ref_source (lx : list lexeme) : list Z := flat_map lex_source lx.

(* ---------------- the image built from (line number, encoded text) records ---------------- *)
Fixpoint mo5_records (addr : Z) (recs : list (Z * list Z)) : list Z :=
  match recs with
  | [] => []
  | (n, t) :: r => let next := addr + zlen t + 5 in u16 next ++ u16 n ++ t ++ [0] ++ mo5_records next r
  end.
Definition mo5_image (recs : list (Z * list Z)) : list Z :=
  let body := mo5_records mo5_base recs ++ [0; 0] in [255] ++ u16 (zlen body) ++ body.

(* a numbered listing line over printable ASCII, as the properties quantify *)
Definition printable (c : Z) : bool := (32 <=? c) && (c <=? 126).
Definition listing_line_ok (l : list Z) : bool :=
  match l with c :: _ => is_digit19 c | [] => false end
  && forallb printable (rstrip_nl l) && negb (existsb (Z.eqb 10) (removelast l))
  && (line_number l <? 65536).

(* ---------------- well-formed lexeme lists (C13's domain) ---------------- *)
Definition delim_chars : list Z := [46; 44; 40; 41; 58; 59; 32].          (* . , ( ) : ; blank *)
Definition operator_chars : list Z := [43; 45; 42; 47; 94; 60; 61; 62; 39]. (* + - * / ^ < = > ' *)
Definition is_delim_or_op (c : Z) : bool := existsb (Z.eqb c) (delim_chars ++ operator_chars).
Fixpoint prefixes (l : list Z) : list (list Z) :=
  match l with [] => [] | c :: r => [c] :: map (cons c) (prefixes r) end.
Definition is_word (k : list Z) : bool := match code_of k with Some _ => true | None => false end.
Definition text_char (c : Z) : bool := printable c && negb (is_delim_or_op c) && negb (c =? 34).
Definition lex_ok (x : lexeme) : bool :=
  match x with
  | LKeyword w => is_word (upper_ascii w) && negb (is_delim_or_op (hd 0 w)) && forallb text_char w
  | LText s => negb (match s with [] => true | _ => false end) && forallb text_char s
               && negb (existsb is_word (prefixes (upper_ascii s)))
  | LString s _ => forallb (fun c => printable c && negb (c =? 34)) s
  | LDelim c => is_delim_or_op c
  end.
Definition is_wordlike (x : lexeme) : bool := match x with LKeyword _ | LText _ => true | _ => false end.
(* every keyword / text run is delimited on both sides; an unterminated literal is last *)
Fixpoint lex_delimited (lx : list lexeme) : bool :=
  match lx with
  | [] => true
  | x :: r =>
    lex_ok x
    && match x, r with
       | (LKeyword _ | LText _), y :: _ => negb (is_wordlike y)
       | LString _ false, _ :: _ => false
       | _, _ => true
       end
    && lex_delimited r
  end.
