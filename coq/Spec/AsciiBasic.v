(* Spec/AsciiBasic.v — what C15 demands of the two ASCII BASIC conversions, written from the
   property text; mentions no Model or Gen definition. *)
Require Import PyBase.
Open Scope Z_scope.

Definition keep7 (l : list Z) : list Z := filter (fun c => c <? 128) l.
(* listing -> ASCII BASIC: CR, then each source line right-trimmed (7-bit characters only), CR *)
Definition ascii_basic_spec (lines : list (list Z)) : list Z :=
  [13] ++ flat_map (fun l => keep7 (rstrip_py l) ++ [13]) lines.

(* ASCII BASIC -> listing: the non-empty pieces between CR / LF separators, in order, each
   followed by the selected line ending *)
Definition is_crlf (b : Z) : bool := (b =? 13) || (b =? 10).
Fixpoint split_crlf (data cur : list Z) : list (list Z) :=
  match data with
  | [] => [rev cur]
  | b :: r => if is_crlf b then rev cur :: split_crlf r [] else split_crlf r (b :: cur)
  end.
Definition nonempty (l : list Z) : bool := match l with [] => false | _ => true end.
Definition eol_of (dos : bool) : list Z := if dos then [13; 10] else [10].
Definition listing_spec (dos : bool) (data : list Z) : list Z :=
  flat_map (fun p => p ++ eol_of dos) (filter nonempty (split_crlf data [])).
