(* Spec/ThomsonDos.v — the Thomson DOS disk layout, written from the format description in the
   property texts (C02, C04..C07, C11) and the READMEs, not from the code.  Mentions no Model or
   Gen definition.

   A disk image is 1, 2 or 4 sides; a side is 80 tracks of 16 sectors of 256 payload bytes
   (emulator .fd: 256-byte sectors; SDDrive .sd: 512-byte slots, upper half FF).  A block is 8
   consecutive sectors (half a track): block b = sectors 8b .. 8b+7 of the side, 160 blocks.
   Track 20 (blocks 40 and 41) holds the file system: its 2nd sector is the allocation table
   (byte 0 = 0, byte 1+b = status of block b), its sectors 3..16 the catalogue (8 entries of 32
   bytes per sector: name 8, extension 3, kind, ASCII flag, first block, bytes in last sector (2),
   16 unused bytes).  Status: 0..159 next block; C1..C8 last block using 1..8 sectors; FE
   reserved; FF free.  Every sector of a file carries 255 bytes of content. *)
Require Import PyBase.
Open Scope Z_scope.

Definition dsector := list Z.
Definition dside := list dsector.           (* 1280 payloads, index = track * 16 + sector *)

Definition fat_sector : nat := 321.         (* track 20, 2nd sector *)
Definition cat_sector (k : nat) : nat := (322 + k)%nat.   (* k = 0..13 *)
Definition nsec (sd : dside) (i : nat) : dsector := nth i sd [].
Definition fat (sd : dside) : list Z := firstn 160 (skipn 1 (nsec sd fat_sector)).
Definition fstatus (f : list Z) (b : Z) : Z := nth (Z.to_nat b) f 255.

Definition st_next (s : Z) : bool := (0 <=? s) && (s <? 160).
Definition st_last (s : Z) : bool := (193 <=? s) && (s <=? 200).
Definition st_reserved (s : Z) : bool := s =? 254.
Definition st_free (s : Z) : bool := s =? 255.
Definition st_valid (s : Z) : bool := st_next s || st_last s || st_reserved s || st_free s.

(* the 112 catalogue entries, in order *)
Definition cat_entries (sd : dside) : list (list Z) :=
  flat_map (fun k => map (fun j => firstn 32 (skipn (32 * j) (nsec sd (cat_sector k)))) (seq 0 8)) (seq 0 14).
Definition e_live (e : list Z) : bool := negb (nth 0 e 255 =? 255) && negb (nth 0 e 255 =? 0).
Definition e_name (e : list Z) : list Z := firstn 8 e.
Definition e_ext (e : list Z) : list Z := firstn 3 (skipn 8 e).
Definition e_kind (e : list Z) : Z := nth 11 e 0.
Definition e_flag (e : list Z) : Z := nth 12 e 0.
Definition e_first (e : list Z) : Z := nth 13 e 255.
Definition e_lastbytes (e : list Z) : Z := nth 14 e 0 * 256 + nth 15 e 0.

(* the chain from [b]: blocks in order and the number of sectors used in the last one; None if
   it leaves the table, meets a free or reserved block, or revisits a block (cycle) *)
Fixpoint chain (fuel : nat) (f : list Z) (b : Z) (seen : list Z) : option (list Z * Z) :=
  match fuel with
  | O => None
  | S fuel' =>
    if negb ((0 <=? b) && (b <? 160)) || existsb (Z.eqb b) seen then None
    else let s := fstatus f b in
         if st_last s then Some (rev (b :: seen), s - 192)
         else if st_next s then chain fuel' f s (b :: seen)
         else None
  end.
Definition file_chain (f : list Z) (e : list Z) : option (list Z * Z) := chain 161 f (e_first e) [].

(* content laid out 255 bytes per sector *)
Definition block_sectors (sd : dside) (b : Z) (n : nat) : list Z :=
  flat_map (fun j => firstn 255 (nsec sd (Z.to_nat b * 8 + j))) (seq 0 n).
Fixpoint chain_content (sd : dside) (blocks : list Z) (u : Z) (lastbytes : Z) : list Z :=
  match blocks with
  | [] => []
  | [b] => block_sectors sd b (Z.to_nat u - 1) ++ firstn (Z.to_nat lastbytes) (nsec sd (Z.to_nat b * 8 + (Z.to_nat u - 1)))
  | b :: r => block_sectors sd b 8 ++ chain_content sd r u lastbytes
  end.

Record dos_file := mkDos { d_name : list Z; d_ext : list Z; d_kind : Z; d_flag : Z; d_blocks : list Z; d_content : list Z }.

(* the live files of a side, in catalogue order; None if some live entry has no proper chain *)
Fixpoint files_of_entries (sd : dside) (f : list Z) (es : list (list Z)) : option (list dos_file) :=
  match es with
  | [] => Some []
  | e :: r =>
    if e_live e then
      match file_chain f e, files_of_entries sd f r with
      | Some (bs, u), Some fs => Some (mkDos (e_name e) (e_ext e) (e_kind e) (e_flag e) bs (chain_content sd bs u (e_lastbytes e)) :: fs)
      | _, _ => None
      end
    else files_of_entries sd f r
  end.
Definition dos_files (sd : dside) : option (list dos_file) := files_of_entries sd (fat sd) (cat_entries sd).

Fixpoint no_dup (l : list Z) : bool :=
  match l with [] => true | x :: r => negb (existsb (Z.eqb x) r) && no_dup r end.

(* reading strength (C06, C07): geometry, valid statuses, track 20 reserved, every live entry has
   a proper chain with at most 255 bytes in its last sector, chains pairwise disjoint.  No demand
   on byte 0 nor on bytes 161.. of the table sector, on fillers, on unreferenced allocated blocks. *)
Definition side_geometry (sd : dside) : bool :=
  (length sd =? 1280)%nat && forallb (fun s => (length s =? 256)%nat && bytesb s) sd.
Definition fsck_read (sd : dside) : bool :=
  side_geometry sd &&
  forallb st_valid (fat sd) && st_reserved (fstatus (fat sd) 40) && st_reserved (fstatus (fat sd) 41) &&
  match dos_files sd with
  | Some fs => no_dup (flat_map d_blocks fs)
               && forallb (fun e => negb (e_live e) || (e_lastbytes e <=? 255)) (cat_entries sd)
  | None => false
  end.
(* strict strength (C04, C05): what a freshly written file system must also satisfy *)
Definition used_blocks (f : list Z) : list Z :=
  filter (fun b => negb (st_free (fstatus f b)) && negb (st_reserved (fstatus f b))) (map Z.of_nat (seq 0 160)).
Definition same_set (a b : list Z) : bool :=
  forallb (fun x => existsb (Z.eqb x) b) a && forallb (fun x => existsb (Z.eqb x) a) b.
Definition fsck_strict (sd : dside) : bool :=
  fsck_read sd && (nth 0 (nsec sd fat_sector) 255 =? 0) &&
  match dos_files sd with
  | Some fs => same_set (used_blocks (fat sd)) (flat_map d_blocks fs)
  | None => false
  end &&
  forallb (fun e => negb (e_live e) || forallb (fun c => c =? 255) (skipn 16 e)) (cat_entries sd).

Definition count_status (p : Z -> bool) (f : list Z) : Z := zlen (filter p f).

(* ---- whole images ---- *)
Definition sd_slot_ok (slot : list Z) : bool := forallb (fun c => c =? 255) (skipn 256 slot).
Fixpoint chunk (n : nat) (fuel : nat) (l : list Z) : list (list Z) :=
  match fuel with O => [] | S f => match l with [] => [] | _ => firstn n l :: chunk n f (skipn n l) end end.
(* raw bytes -> sides of payloads, for a given slot size *)
Definition sides_of_raw (slot : nat) (raw : list Z) : list dside :=
  map (fun side_raw => map (firstn 256) (chunk slot 1280 side_raw)) (chunk (slot * 1280) 4 raw).

(* ---- what create must store for a source (documented table) ----
   AUTO.BAT and .BAS -> kind 0 flag 00; .BAS,a -> kind 0 flag FF (stored as .BAS); .BIN -> kind 2
   flag 00; .TXT -> kind 3 flag FF; anything else -> kind 1 flag 00 *)
Definition doc_disk_kind (name_upper ext_upper ext_with_option : list Z) : list Z * Z * Z :=
  if zeqb_list name_upper [65;85;84;79] && zeqb_list ext_upper [66;65;84] then (ext_upper, 0, 0)
  else if zeqb_list ext_with_option [66;65;83;44;65] then ([66;65;83], 0, 255)
  else if zeqb_list ext_with_option [66;65;83] then (ext_upper, 0, 0)
  else if zeqb_list ext_with_option [66;73;78] then (ext_upper, 2, 0)
  else if zeqb_list ext_with_option [84;88;84] then (ext_upper, 3, 255)
  else (ext_upper, 1, 0).
Definition pad_to (n : nat) (s : list Z) : list Z := firstn n (s ++ repeat 32 n).

(* ---- further notions used by the theorems ---- *)
(* every catalogue slot that is not never-used (first byte FF) points inside the table: true of
   images written by Thomson DOS, where a deleted entry keeps its former record *)
Definition slots_in_table (sd : dside) : bool :=
  forallb (fun e => (nth 0 e 255 =? 255) || ((0 <=? e_first e) && (e_first e <? 160))) (cat_entries sd).
Definition tool_readable (sd : dside) : bool := fsck_read sd && slots_in_table sd.
Definition printable_char (c : Z) : bool := (32 <=? c) && (c <=? 126).
Definition names_printable (sd : dside) : bool :=
  forallb (fun e => negb (e_live e) || forallb printable_char (firstn 11 e)) (cat_entries sd).

(* blocks a content of n bytes occupies: 255 bytes per sector, 8 sectors per block, at least one *)
Definition needed_sectors (n : Z) : Z := if n =? 0 then 1 else (n + 254) / 255.
Definition needed_blocks (n : Z) : Z := (needed_sectors n + 7) / 8.

(* .sd <-> .fd *)
Definition payloads_of (raw : list Z) : list Z := flat_map (firstn 256) (chunk 512 (S (length raw)) raw).
Definition normalise_padding (raw : list Z) : list Z :=
  flat_map (fun slot => firstn 256 slot ++ repeat 255 256) (chunk 512 (S (length raw)) raw).

(* an order-preserving interleaving of two lists *)
Inductive interleave {A} : list A -> list A -> list A -> Prop :=
| il_nil : interleave [] [] []
| il_left : forall x a b m, interleave a b m -> interleave (x :: a) b (x :: m)
| il_right : forall x a b m, interleave a b m -> interleave a (x :: b) (x :: m).

(* what a file stored by the tools must look like in the catalogue *)
Definition stored_file (name ext : list Z) (kind : Z) (ascii : bool) (content : list Z) (blocks : list Z) : dos_file :=
  mkDos (pad_to 8 (upper_ascii name)) (pad_to 3 (upper_ascii ext)) kind (if ascii then 255 else 0) blocks content.
Definition dos_view (f : dos_file) : list Z * list Z * Z * Z * list Z := (d_name f, d_ext f, d_kind f, d_flag f, d_content f).
