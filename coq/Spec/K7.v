(* Spec/K7.v — the MO5 .k7 tape format, written from the format description in the property
   texts (C01, C03, C08, C09) and README-cli-tar.md, not from the code.  Mentions no Model or
   Gen definition. *)
Require Import PyBase.
Open Scope Z_scope.

(* one file as the format sees it: 8-byte name field, 3-byte extension field, kind byte,
   16-bit mode, content, and how the content is cut into data blocks *)
Record k7_file := mkK7 { k_name : list Z; k_ext : list Z; k_kind : Z; k_mode : Z; k_chunks : list (list Z) }.
Definition k_content (f : k7_file) : list Z := concat (k_chunks f).

Definition sum_bytes (p : list Z) : Z := fold_right Z.add 0 p.
Definition ck_ok (p : list Z) (ck : Z) : bool := ((sum_bytes p + ck) mod 256 =? 0) && (0 <=? ck) && (ck <? 256).
(* the checksum byte is determined by ck_ok *)
Definition ck_of (p : list Z) : Z := (256 - sum_bytes p mod 256) mod 256.

Definition k7_marker : list Z := [60; 90].
(* a block as the tool must write it: sixteen 01, 3C 5A, type, length = payload + 2 (mod 256),
   payload (at most 254 bytes), checksum *)
Definition k7_block (ty : Z) (p : list Z) : list Z :=
  repeat 1 16 ++ k7_marker ++ [ty; (zlen p + 2) mod 256] ++ p ++ [ck_of p].
Definition k7_leader_payload (f : k7_file) : list Z :=
  k_name f ++ k_ext f ++ [k_kind f; k_mode f / 256; k_mode f mod 256].
Definition k7_end_block : list Z := repeat 1 16 ++ k7_marker ++ [255; 2; 0].
Definition k7_file_image (f : k7_file) : list Z :=
  k7_block 0 (k7_leader_payload f) ++ concat (map (k7_block 1) (k_chunks f)) ++ k7_end_block.
(* encoded size: 35 bytes per leader, 21 + |chunk| per data block, 21 per end block *)
Definition k7_encoded_size (fs : list k7_file) : Z :=
  fold_right (fun f a => 35 + fold_right (fun c b => 21 + zlen c + b) 0 (k_chunks f) + 21 + a) 0 fs.

(* ---- strict decoder for tool-made tapes: back-to-back blocks from offset 0, exactly sixteen
   01 before each 3C 5A, then nothing but zero padding ---- *)
Definition strict_prefix : list Z := repeat 1 16 ++ k7_marker.

(* one block: (type, payload, rest) *)
Definition parse_block (l : list Z) : option (Z * list Z * list Z) :=
  if starts_with strict_prefix l then
    match skipn 18 l with
    | ty :: lb :: r =>
      let n := if lb =? 0 then 256 else lb in
      if (2 <=? n) && (n - 2 <=? 254) && byteb ty && byteb lb then
        let k := Z.to_nat (n - 2) in
        let p := firstn k r in
        match skipn k r with
        | ck :: rest => if (zlen p =? n - 2) && bytesb p && ck_ok p ck then Some (ty, p, rest) else None
        | [] => None
        end
      else None
    | _ => None
    end
  else None.

(* data blocks up to the end block *)
Fixpoint parse_data (fuel : nat) (l : list Z) (acc : list (list Z)) : option (list (list Z) * list Z) :=
  match fuel with
  | O => None
  | S fuel' =>
    match parse_block l with
    | Some (1, p, rest) => parse_data fuel' rest (p :: acc)
    | Some (255, [], rest) => Some (rev acc, rest)
    | _ => None
    end
  end.

Definition parse_file (l : list Z) : option (k7_file * list Z) :=
  match parse_block l with
  | Some (0, p, rest) =>
    if zlen p =? 14 then
      match parse_data (S (length rest)) rest [] with
      | Some (chunks, rest') =>
        Some (mkK7 (firstn 8 p) (firstn 3 (skipn 8 p)) (nth 11 p 0) (nth 12 p 0 * 256 + nth 13 p 0) chunks, rest')
      | None => None
      end
    else None
  | _ => None
  end.

Fixpoint parse_files (fuel : nat) (l : list Z) (acc : list k7_file) : option (list k7_file) :=
  match fuel with
  | O => None
  | S fuel' =>
    if forallb (fun c => c =? 0) l then Some (rev acc)
    else match parse_file l with
         | Some (f, rest) => parse_files fuel' rest (f :: acc)
         | None => None
         end
  end.

Definition k7_decode (raw : list Z) : option (list k7_file) := parse_files (S (length raw)) raw [].

(* ---- what create must produce for a source, per the documented table ----
   BAS -> kind 0 mode 0000 ; BAS,a -> kind 0 mode FFFF (stored as BAS) ; CSV -> kind 1 ; other -> 2 *)
Definition doc_kind_mode (ext_upper : list Z) : list Z * Z * Z :=
  if zeqb_list ext_upper [66;65;83;44;65] then ([66;65;83], 0, 65535)
  else if zeqb_list ext_upper [66;65;83] then (ext_upper, 0, 0)
  else if zeqb_list ext_upper [67;83;86] then (ext_upper, 1, 0)
  else (ext_upper, 2, 0).
Definition pad_field (n : nat) (s : list Z) : list Z := firstn n (s ++ repeat 32 n).

(* cut into blocks of at most n bytes (the format allows any cut; the tool uses 254) *)
Fixpoint chunks_of (fuel : nat) (n : nat) (l : list Z) : list (list Z) :=
  match fuel with
  | O => []
  | S fuel' => match l with [] => [] | _ => firstn n l :: chunks_of fuel' n (skipn n l) end
  end.

(* catalogue name and extension of a source path: the part of its base name before / after
   the last dot, upper-cased *)
Definition doc_split (src : list Z) : list Z * list Z :=
  let base := basename src in
  match rfind_char 46 base with
  | None => (upper_ascii base, [])
  | Some d => (upper_ascii (firstn d base), upper_ascii (skipn (S d) base))
  end.
Definition doc_entry (src content : list Z) : k7_file :=
  let '(name, ext0) := doc_split src in
  let '(ext, kind, mode) := doc_kind_mode ext0 in
  mkK7 (pad_field 8 name) (pad_field 3 ext) kind mode (chunks_of (S (length content)) 254 content).
(* the path read for a source: the ',a' marker is not part of the file name *)
Definition doc_path (src : list Z) : list Z :=
  if zeqb_list (upper_ascii (last_n 2 src)) [44;65] && zeqb_list (upper_ascii (snd (doc_split src))) [66;65;83;44;65]
  then drop_last 2 src else src.

(* ---- third-party tapes (C08): any gap not containing the read marker 01 01 01 3C 5A, a leader
   run of at least three 01, 3C 5A, then the block; blocks in file order ---- *)
Definition marker5 : list Z := [1;1;1;60;90].
Fixpoint contains (pat l : list Z) : bool :=
  match l with
  | [] => match pat with [] => true | _ => false end
  | _ :: l' => starts_with pat l || contains pat l'
  end.

(* a block body as stored after 3C 5A: type, length byte, payload, checksum *)
Definition k7_body (ty : Z) (p : list Z) : list Z := [ty; (zlen p + 2) mod 256] ++ p ++ [ck_of p].

Inductive K7_blocks : list Z -> list (Z * list Z) -> Prop :=
| K7_nil : forall gap, contains marker5 gap = false -> K7_blocks gap []
| K7_cons : forall gap n ty p rest bs,
    contains marker5 gap = false ->
    (3 <= n)%nat -> zlen p <= 254 -> bytesb p = true -> byteb ty = true ->
    K7_blocks rest bs ->
    K7_blocks (gap ++ repeat 1 n ++ k7_marker ++ k7_body ty p ++ rest) ((ty, p) :: bs).

Definition blocks_of_file (f : k7_file) : list (Z * list Z) :=
  (0, k7_leader_payload f) :: map (fun c => (1, c)) (k_chunks f) ++ [(255, [])].
Definition K7 (raw : list Z) (fs : list k7_file) : Prop := K7_blocks raw (flat_map blocks_of_file fs).

(* ---- reports: the index of a file's first block counts every block before it (leader, data
   and end blocks), starting at 1 ---- *)
Fixpoint k7_positions (idx : Z) (fs : list k7_file) : list (k7_file * Z) :=
  match fs with
  | [] => []
  | f :: r => (f, idx + 1) :: k7_positions (idx + 2 + zlen (k_chunks f)) r
  end.

(* ---- sources of a create action, as the property sees them ---- *)
Definition src_content (fs : fsmap) (src : list Z) : list Z :=
  match fs_read fs (doc_path src) with Some c => c | None => [] end.
Definition src_entry (fs : fsmap) (src : list Z) : k7_file := doc_entry src (src_content fs src).
(* printable ASCII without blank, path separator excluded from base names *)
Definition name_char (c : Z) : bool := (33 <=? c) && (c <? 127).
Definition src_readable (fs : fsmap) (src : list Z) : bool :=
  match fs_read fs (doc_path src) with Some c => bytesb c | None => false end
  && forallb name_char (basename src).
(* 8.3: the catalogue fields hold the whole name and extension *)
Definition src_83 (src : list Z) : bool :=
  let '(name, ext0) := doc_split src in
  let '(ext, _, _) := doc_kind_mode ext0 in
  (zlen name <=? 8) && (zlen ext <=? 3).
(* NAME.EXT as list and extract print it (EXT possibly empty) *)
Definition src_catname (src : list Z) : list Z :=
  let '(name, ext0) := doc_split src in
  let '(ext, _, _) := doc_kind_mode ext0 in name ++ [46] ++ ext.

(* a third-party file is readable by name: 7-bit fields of 8 and 3 bytes, byte-sized kind, 16-bit mode *)
Definition k7_file_ok (f : k7_file) : bool :=
  (zlen (k_name f) =? 8) && (zlen (k_ext f) =? 3)
  && forallb (fun c => (0 <=? c) && (c <? 128)) (k_name f ++ k_ext f)
  && byteb (k_kind f) && (0 <=? k_mode f) && (k_mode f <? 65536)
  && forallb (fun c => bytesb c && (zlen c <=? 254)) (k_chunks f).
