
(** val negb : bool -> bool **)

let negb = function
| true -> false
| false -> true

type nat =
| O
| S of nat

(** val fst : ('a1 * 'a2) -> 'a1 **)

let fst = function
| (x, _) -> x

(** val snd : ('a1 * 'a2) -> 'a2 **)

let snd = function
| (_, y) -> y

(** val length : 'a1 list -> nat **)

let rec length = function
| [] -> O
| _ :: l' -> S (length l')

(** val app : 'a1 list -> 'a1 list -> 'a1 list **)

let rec app l m =
  match l with
  | [] -> m
  | a :: l1 -> a :: (app l1 m)

type comparison =
| Eq
| Lt
| Gt

(** val compOpp : comparison -> comparison **)

let compOpp = function
| Eq -> Eq
| Lt -> Gt
| Gt -> Lt

module Coq__1 = struct
 (** val add : nat -> nat -> nat **)
 let rec add n0 m =
   match n0 with
   | O -> m
   | S p -> S (add p m)
end
include Coq__1

(** val sub : nat -> nat -> nat **)

let rec sub n0 m =
  match n0 with
  | O -> n0
  | S k -> (match m with
            | O -> n0
            | S l -> sub k l)

type positive =
| XI of positive
| XO of positive
| XH

type n =
| N0
| Npos of positive

type z =
| Z0
| Zpos of positive
| Zneg of positive

module Nat =
 struct
  (** val leb : nat -> nat -> bool **)

  let rec leb n0 m =
    match n0 with
    | O -> true
    | S n' -> (match m with
               | O -> false
               | S m' -> leb n' m')

  (** val max : nat -> nat -> nat **)

  let rec max n0 m =
    match n0 with
    | O -> m
    | S n' -> (match m with
               | O -> n0
               | S m' -> S (max n' m'))
 end

module Pos =
 struct
  (** val succ : positive -> positive **)

  let rec succ = function
  | XI p -> XO (succ p)
  | XO p -> XI p
  | XH -> XO XH

  (** val add : positive -> positive -> positive **)

  let rec add x y =
    match x with
    | XI p ->
      (match y with
       | XI q -> XO (add_carry p q)
       | XO q -> XI (add p q)
       | XH -> XO (succ p))
    | XO p ->
      (match y with
       | XI q -> XI (add p q)
       | XO q -> XO (add p q)
       | XH -> XI p)
    | XH -> (match y with
             | XI q -> XO (succ q)
             | XO q -> XI q
             | XH -> XO XH)

  (** val add_carry : positive -> positive -> positive **)

  and add_carry x y =
    match x with
    | XI p ->
      (match y with
       | XI q -> XI (add_carry p q)
       | XO q -> XO (add_carry p q)
       | XH -> XI (succ p))
    | XO p ->
      (match y with
       | XI q -> XO (add_carry p q)
       | XO q -> XI (add p q)
       | XH -> XO (succ p))
    | XH ->
      (match y with
       | XI q -> XI (succ q)
       | XO q -> XO (succ q)
       | XH -> XI XH)

  (** val pred_double : positive -> positive **)

  let rec pred_double = function
  | XI p -> XI (XO p)
  | XO p -> XI (pred_double p)
  | XH -> XH

  (** val pred_N : positive -> n **)

  let pred_N = function
  | XI p -> Npos (XO p)
  | XO p -> Npos (pred_double p)
  | XH -> N0

  (** val mul : positive -> positive -> positive **)

  let rec mul x y =
    match x with
    | XI p -> add y (XO (mul p y))
    | XO p -> XO (mul p y)
    | XH -> y

  (** val iter : ('a1 -> 'a1) -> 'a1 -> positive -> 'a1 **)

  let rec iter f x = function
  | XI n' -> f (iter f (iter f x n') n')
  | XO n' -> iter f (iter f x n') n'
  | XH -> f x

  (** val div2 : positive -> positive **)

  let div2 = function
  | XI p0 -> p0
  | XO p0 -> p0
  | XH -> XH

  (** val div2_up : positive -> positive **)

  let div2_up = function
  | XI p0 -> succ p0
  | XO p0 -> p0
  | XH -> XH

  (** val size : positive -> positive **)

  let rec size = function
  | XI p0 -> succ (size p0)
  | XO p0 -> succ (size p0)
  | XH -> XH

  (** val compare_cont : comparison -> positive -> positive -> comparison **)

  let rec compare_cont r x y =
    match x with
    | XI p ->
      (match y with
       | XI q -> compare_cont r p q
       | XO q -> compare_cont Gt p q
       | XH -> Gt)
    | XO p ->
      (match y with
       | XI q -> compare_cont Lt p q
       | XO q -> compare_cont r p q
       | XH -> Gt)
    | XH -> (match y with
             | XH -> r
             | _ -> Lt)

  (** val compare : positive -> positive -> comparison **)

  let compare =
    compare_cont Eq

  (** val eqb : positive -> positive -> bool **)

  let rec eqb p q =
    match p with
    | XI p0 -> (match q with
                | XI q0 -> eqb p0 q0
                | _ -> false)
    | XO p0 -> (match q with
                | XO q0 -> eqb p0 q0
                | _ -> false)
    | XH -> (match q with
             | XH -> true
             | _ -> false)

  (** val coq_Nsucc_double : n -> n **)

  let coq_Nsucc_double = function
  | N0 -> Npos XH
  | Npos p -> Npos (XI p)

  (** val coq_Ndouble : n -> n **)

  let coq_Ndouble = function
  | N0 -> N0
  | Npos p -> Npos (XO p)

  (** val coq_lor : positive -> positive -> positive **)

  let rec coq_lor p q =
    match p with
    | XI p0 ->
      (match q with
       | XI q0 -> XI (coq_lor p0 q0)
       | XO q0 -> XI (coq_lor p0 q0)
       | XH -> p)
    | XO p0 ->
      (match q with
       | XI q0 -> XI (coq_lor p0 q0)
       | XO q0 -> XO (coq_lor p0 q0)
       | XH -> XI p0)
    | XH -> (match q with
             | XO q0 -> XI q0
             | _ -> q)

  (** val coq_land : positive -> positive -> n **)

  let rec coq_land p q =
    match p with
    | XI p0 ->
      (match q with
       | XI q0 -> coq_Nsucc_double (coq_land p0 q0)
       | XO q0 -> coq_Ndouble (coq_land p0 q0)
       | XH -> Npos XH)
    | XO p0 ->
      (match q with
       | XI q0 -> coq_Ndouble (coq_land p0 q0)
       | XO q0 -> coq_Ndouble (coq_land p0 q0)
       | XH -> N0)
    | XH -> (match q with
             | XO _ -> N0
             | _ -> Npos XH)

  (** val ldiff : positive -> positive -> n **)

  let rec ldiff p q =
    match p with
    | XI p0 ->
      (match q with
       | XI q0 -> coq_Ndouble (ldiff p0 q0)
       | XO q0 -> coq_Nsucc_double (ldiff p0 q0)
       | XH -> Npos (XO p0))
    | XO p0 ->
      (match q with
       | XI q0 -> coq_Ndouble (ldiff p0 q0)
       | XO q0 -> coq_Ndouble (ldiff p0 q0)
       | XH -> Npos p)
    | XH -> (match q with
             | XO _ -> Npos XH
             | _ -> N0)

  (** val iter_op : ('a1 -> 'a1 -> 'a1) -> positive -> 'a1 -> 'a1 **)

  let rec iter_op op p a =
    match p with
    | XI p0 -> op a (iter_op op p0 (op a a))
    | XO p0 -> iter_op op p0 (op a a)
    | XH -> a

  (** val to_nat : positive -> nat **)

  let to_nat x =
    iter_op Coq__1.add x (S O)

  (** val of_succ_nat : nat -> positive **)

  let rec of_succ_nat = function
  | O -> XH
  | S x -> succ (of_succ_nat x)
 end

module N =
 struct
  (** val succ_pos : n -> positive **)

  let succ_pos = function
  | N0 -> XH
  | Npos p -> Pos.succ p

  (** val coq_lor : n -> n -> n **)

  let coq_lor n0 m =
    match n0 with
    | N0 -> m
    | Npos p -> (match m with
                 | N0 -> n0
                 | Npos q -> Npos (Pos.coq_lor p q))

  (** val ldiff : n -> n -> n **)

  let ldiff n0 m =
    match n0 with
    | N0 -> N0
    | Npos p -> (match m with
                 | N0 -> n0
                 | Npos q -> Pos.ldiff p q)
 end

module Z =
 struct
  (** val double : z -> z **)

  let double = function
  | Z0 -> Z0
  | Zpos p -> Zpos (XO p)
  | Zneg p -> Zneg (XO p)

  (** val succ_double : z -> z **)

  let succ_double = function
  | Z0 -> Zpos XH
  | Zpos p -> Zpos (XI p)
  | Zneg p -> Zneg (Pos.pred_double p)

  (** val pred_double : z -> z **)

  let pred_double = function
  | Z0 -> Zneg XH
  | Zpos p -> Zpos (Pos.pred_double p)
  | Zneg p -> Zneg (XI p)

  (** val pos_sub : positive -> positive -> z **)

  let rec pos_sub x y =
    match x with
    | XI p ->
      (match y with
       | XI q -> double (pos_sub p q)
       | XO q -> succ_double (pos_sub p q)
       | XH -> Zpos (XO p))
    | XO p ->
      (match y with
       | XI q -> pred_double (pos_sub p q)
       | XO q -> double (pos_sub p q)
       | XH -> Zpos (Pos.pred_double p))
    | XH ->
      (match y with
       | XI q -> Zneg (XO q)
       | XO q -> Zneg (Pos.pred_double q)
       | XH -> Z0)

  (** val add : z -> z -> z **)

  let add x y =
    match x with
    | Z0 -> y
    | Zpos x' ->
      (match y with
       | Z0 -> x
       | Zpos y' -> Zpos (Pos.add x' y')
       | Zneg y' -> pos_sub x' y')
    | Zneg x' ->
      (match y with
       | Z0 -> x
       | Zpos y' -> pos_sub y' x'
       | Zneg y' -> Zneg (Pos.add x' y'))

  (** val opp : z -> z **)

  let opp = function
  | Z0 -> Z0
  | Zpos x0 -> Zneg x0
  | Zneg x0 -> Zpos x0

  (** val sub : z -> z -> z **)

  let sub m n0 =
    add m (opp n0)

  (** val mul : z -> z -> z **)

  let mul x y =
    match x with
    | Z0 -> Z0
    | Zpos x' ->
      (match y with
       | Z0 -> Z0
       | Zpos y' -> Zpos (Pos.mul x' y')
       | Zneg y' -> Zneg (Pos.mul x' y'))
    | Zneg x' ->
      (match y with
       | Z0 -> Z0
       | Zpos y' -> Zneg (Pos.mul x' y')
       | Zneg y' -> Zpos (Pos.mul x' y'))

  (** val compare : z -> z -> comparison **)

  let compare x y =
    match x with
    | Z0 -> (match y with
             | Z0 -> Eq
             | Zpos _ -> Lt
             | Zneg _ -> Gt)
    | Zpos x' -> (match y with
                  | Zpos y' -> Pos.compare x' y'
                  | _ -> Gt)
    | Zneg x' ->
      (match y with
       | Zneg y' -> compOpp (Pos.compare x' y')
       | _ -> Lt)

  (** val leb : z -> z -> bool **)

  let leb x y =
    match compare x y with
    | Gt -> false
    | _ -> true

  (** val ltb : z -> z -> bool **)

  let ltb x y =
    match compare x y with
    | Lt -> true
    | _ -> false

  (** val eqb : z -> z -> bool **)

  let eqb x y =
    match x with
    | Z0 -> (match y with
             | Z0 -> true
             | _ -> false)
    | Zpos p -> (match y with
                 | Zpos q -> Pos.eqb p q
                 | _ -> false)
    | Zneg p -> (match y with
                 | Zneg q -> Pos.eqb p q
                 | _ -> false)

  (** val to_nat : z -> nat **)

  let to_nat = function
  | Zpos p -> Pos.to_nat p
  | _ -> O

  (** val of_nat : nat -> z **)

  let of_nat = function
  | O -> Z0
  | S n1 -> Zpos (Pos.of_succ_nat n1)

  (** val of_N : n -> z **)

  let of_N = function
  | N0 -> Z0
  | Npos p -> Zpos p

  (** val pos_div_eucl : positive -> z -> z * z **)

  let rec pos_div_eucl a b =
    match a with
    | XI a' ->
      let (q, r) = pos_div_eucl a' b in
      let r' = add (mul (Zpos (XO XH)) r) (Zpos XH) in
      if ltb r' b
      then ((mul (Zpos (XO XH)) q), r')
      else ((add (mul (Zpos (XO XH)) q) (Zpos XH)), (sub r' b))
    | XO a' ->
      let (q, r) = pos_div_eucl a' b in
      let r' = mul (Zpos (XO XH)) r in
      if ltb r' b
      then ((mul (Zpos (XO XH)) q), r')
      else ((add (mul (Zpos (XO XH)) q) (Zpos XH)), (sub r' b))
    | XH -> if leb (Zpos (XO XH)) b then (Z0, (Zpos XH)) else ((Zpos XH), Z0)

  (** val div_eucl : z -> z -> z * z **)

  let div_eucl a b =
    match a with
    | Z0 -> (Z0, Z0)
    | Zpos a' ->
      (match b with
       | Z0 -> (Z0, a)
       | Zpos _ -> pos_div_eucl a' b
       | Zneg b' ->
         let (q, r) = pos_div_eucl a' (Zpos b') in
         (match r with
          | Z0 -> ((opp q), Z0)
          | _ -> ((opp (add q (Zpos XH))), (add b r))))
    | Zneg a' ->
      (match b with
       | Z0 -> (Z0, a)
       | Zpos _ ->
         let (q, r) = pos_div_eucl a' b in
         (match r with
          | Z0 -> ((opp q), Z0)
          | _ -> ((opp (add q (Zpos XH))), (sub b r)))
       | Zneg b' -> let (q, r) = pos_div_eucl a' (Zpos b') in (q, (opp r)))

  (** val div : z -> z -> z **)

  let div a b =
    let (q, _) = div_eucl a b in q

  (** val modulo : z -> z -> z **)

  let modulo a b =
    let (_, r) = div_eucl a b in r

  (** val div2 : z -> z **)

  let div2 = function
  | Z0 -> Z0
  | Zpos p -> (match p with
               | XH -> Z0
               | _ -> Zpos (Pos.div2 p))
  | Zneg p -> Zneg (Pos.div2_up p)

  (** val log2 : z -> z **)

  let log2 = function
  | Zpos p0 ->
    (match p0 with
     | XI p -> Zpos (Pos.size p)
     | XO p -> Zpos (Pos.size p)
     | XH -> Z0)
  | _ -> Z0

  (** val shiftl : z -> z -> z **)

  let shiftl a = function
  | Z0 -> a
  | Zpos p -> Pos.iter (mul (Zpos (XO XH))) a p
  | Zneg p -> Pos.iter div2 a p

  (** val shiftr : z -> z -> z **)

  let shiftr a n0 =
    shiftl a (opp n0)

  (** val coq_land : z -> z -> z **)

  let coq_land a b =
    match a with
    | Z0 -> Z0
    | Zpos a0 ->
      (match b with
       | Z0 -> Z0
       | Zpos b0 -> of_N (Pos.coq_land a0 b0)
       | Zneg b0 -> of_N (N.ldiff (Npos a0) (Pos.pred_N b0)))
    | Zneg a0 ->
      (match b with
       | Z0 -> Z0
       | Zpos b0 -> of_N (N.ldiff (Npos b0) (Pos.pred_N a0))
       | Zneg b0 ->
         Zneg (N.succ_pos (N.coq_lor (Pos.pred_N a0) (Pos.pred_N b0))))
 end

(** val nth : nat -> 'a1 list -> 'a1 -> 'a1 **)

let rec nth n0 l default =
  match n0 with
  | O -> (match l with
          | [] -> default
          | x :: _ -> x)
  | S m -> (match l with
            | [] -> default
            | _ :: t -> nth m t default)

(** val nth_error : 'a1 list -> nat -> 'a1 option **)

let rec nth_error l = function
| O -> (match l with
        | [] -> None
        | x :: _ -> Some x)
| S n1 -> (match l with
           | [] -> None
           | _ :: l0 -> nth_error l0 n1)

(** val removelast : 'a1 list -> 'a1 list **)

let rec removelast = function
| [] -> []
| a :: l0 -> (match l0 with
              | [] -> []
              | _ :: _ -> a :: (removelast l0))

(** val rev : 'a1 list -> 'a1 list **)

let rec rev = function
| [] -> []
| x :: l' -> app (rev l') (x :: [])

(** val concat : 'a1 list list -> 'a1 list **)

let rec concat = function
| [] -> []
| x :: l0 -> app x (concat l0)

(** val map : ('a1 -> 'a2) -> 'a1 list -> 'a2 list **)

let rec map f = function
| [] -> []
| a :: t -> (f a) :: (map f t)

(** val flat_map : ('a1 -> 'a2 list) -> 'a1 list -> 'a2 list **)

let rec flat_map f = function
| [] -> []
| x :: t -> app (f x) (flat_map f t)

(** val fold_left : ('a1 -> 'a2 -> 'a1) -> 'a2 list -> 'a1 -> 'a1 **)

let rec fold_left f l a0 =
  match l with
  | [] -> a0
  | b :: t -> fold_left f t (f a0 b)

(** val fold_right : ('a2 -> 'a1 -> 'a1) -> 'a1 -> 'a2 list -> 'a1 **)

let rec fold_right f a0 = function
| [] -> a0
| b :: t -> f b (fold_right f a0 t)

(** val existsb : ('a1 -> bool) -> 'a1 list -> bool **)

let rec existsb f = function
| [] -> false
| a :: l0 -> (||) (f a) (existsb f l0)

(** val forallb : ('a1 -> bool) -> 'a1 list -> bool **)

let rec forallb f = function
| [] -> true
| a :: l0 -> (&&) (f a) (forallb f l0)

(** val filter : ('a1 -> bool) -> 'a1 list -> 'a1 list **)

let rec filter f = function
| [] -> []
| x :: l0 -> if f x then x :: (filter f l0) else filter f l0

(** val firstn : nat -> 'a1 list -> 'a1 list **)

let rec firstn n0 l =
  match n0 with
  | O -> []
  | S n1 -> (match l with
             | [] -> []
             | a :: l0 -> a :: (firstn n1 l0))

(** val skipn : nat -> 'a1 list -> 'a1 list **)

let rec skipn n0 l =
  match n0 with
  | O -> l
  | S n1 -> (match l with
             | [] -> []
             | _ :: l0 -> skipn n1 l0)

(** val repeat : 'a1 -> nat -> 'a1 list **)

let rec repeat x = function
| O -> []
| S k -> x :: (repeat x k)

(** val byteb : z -> bool **)

let byteb b =
  (&&) (Z.leb Z0 b)
    (Z.ltb b (Zpos (XO (XO (XO (XO (XO (XO (XO (XO XH))))))))))

(** val bytesb : z list -> bool **)

let bytesb l =
  forallb byteb l

(** val zlen : 'a1 list -> z **)

let zlen l =
  Z.of_nat (length l)

type err =
| EValue
| EIndex
| EType
| EOverflow
| EUnicode
| ENoEnt
| EOther

type 'a res =
| Ok of 'a
| Err of err

(** val bind : 'a1 res -> ('a1 -> 'a2 res) -> 'a2 res **)

let bind r f =
  match r with
  | Ok a -> f a
  | Err e -> Err e

(** val slice : nat -> nat -> 'a1 list -> 'a1 list **)

let slice i j l =
  firstn (sub j i) (skipn i l)

(** val splice : nat -> nat -> 'a1 list -> 'a1 list -> 'a1 list **)

let splice i j v l =
  app (firstn i l) (app v (skipn (Nat.max i j) l))

(** val drop_last : nat -> 'a1 list -> 'a1 list **)

let drop_last k l =
  firstn (sub (length l) k) l

(** val last_n : nat -> 'a1 list -> 'a1 list **)

let last_n k l =
  skipn (sub (length l) k) l

(** val zeqb_list : z list -> z list -> bool **)

let rec zeqb_list a b =
  match a with
  | [] -> (match b with
           | [] -> true
           | _ :: _ -> false)
  | x :: a' ->
    (match b with
     | [] -> false
     | y :: b' -> (&&) (Z.eqb x y) (zeqb_list a' b'))

(** val starts_with : z list -> z list -> bool **)

let rec starts_with p l =
  match p with
  | [] -> true
  | x :: p' ->
    (match l with
     | [] -> false
     | y :: l' -> (&&) (Z.eqb x y) (starts_with p' l'))

(** val find_from : z list -> z list -> nat -> nat option **)

let rec find_from pat l off =
  match l with
  | [] -> (match pat with
           | [] -> Some off
           | _ :: _ -> None)
  | _ :: l' ->
    if starts_with pat l then Some off else find_from pat l' (S off)

(** val find_sub : z list -> z list -> nat -> nat option **)

let find_sub pat l start =
  if Nat.leb start (length l)
  then find_from pat (skipn start l) start
  else None

(** val rfind_aux : z -> z list -> nat -> nat option -> nat option **)

let rec rfind_aux c l i acc =
  match l with
  | [] -> acc
  | x :: l' -> rfind_aux c l' (S i) (if Z.eqb x c then Some i else acc)

(** val rfind_char : z -> z list -> nat option **)

let rfind_char c l =
  rfind_aux c l O None

(** val upper_char : z -> z **)

let upper_char c =
  if (&&) (Z.leb (Zpos (XI (XO (XO (XO (XO (XI XH))))))) c)
       (Z.leb c (Zpos (XO (XI (XO (XI (XI (XI XH))))))))
  then Z.sub c (Zpos (XO (XO (XO (XO (XO XH))))))
  else c

(** val upper_ascii : z list -> z list **)

let upper_ascii l =
  map upper_char l

(** val is_digit : z -> bool **)

let is_digit c =
  (&&) (Z.leb (Zpos (XO (XO (XO (XO (XI XH)))))) c)
    (Z.leb c (Zpos (XI (XO (XO (XI (XI XH)))))))

(** val is_digit19 : z -> bool **)

let is_digit19 c =
  (&&) (Z.leb (Zpos (XI (XO (XO (XO (XI XH)))))) c)
    (Z.leb c (Zpos (XI (XO (XO (XI (XI XH)))))))

(** val is_space_py : z -> bool **)

let is_space_py c =
  (||)
    ((||)
      ((||)
        ((||)
          ((||)
            ((||)
              ((||)
                ((||)
                  ((||)
                    ((||)
                      ((&&) (Z.leb (Zpos (XI (XO (XO XH)))) c)
                        (Z.leb c (Zpos (XI (XO (XI XH))))))
                      ((&&) (Z.leb (Zpos (XO (XO (XI (XI XH))))) c)
                        (Z.leb c (Zpos (XO (XO (XO (XO (XO XH)))))))))
                    (Z.eqb c (Zpos (XI (XO (XI (XO (XO (XO (XO XH))))))))))
                  (Z.eqb c (Zpos (XO (XO (XO (XO (XO (XI (XO XH))))))))))
                (Z.eqb c (Zpos (XO (XO (XO (XO (XO (XO (XO (XI (XO (XI (XI
                  (XO XH)))))))))))))))
              ((&&)
                (Z.leb (Zpos (XO (XO (XO (XO (XO (XO (XO (XO (XO (XO (XO (XO
                  (XO XH)))))))))))))) c)
                (Z.leb c (Zpos (XO (XI (XO (XI (XO (XO (XO (XO (XO (XO (XO
                  (XO (XO XH)))))))))))))))))
            (Z.eqb c (Zpos (XO (XO (XO (XI (XO (XI (XO (XO (XO (XO (XO (XO
              (XO XH))))))))))))))))
          (Z.eqb c (Zpos (XI (XO (XO (XI (XO (XI (XO (XO (XO (XO (XO (XO (XO
            XH))))))))))))))))
        (Z.eqb c (Zpos (XI (XI (XI (XI (XO (XI (XO (XO (XO (XO (XO (XO (XO
          XH))))))))))))))))
      (Z.eqb c (Zpos (XI (XI (XI (XI (XI (XO (XI (XO (XO (XO (XO (XO (XO
        XH))))))))))))))))
    (Z.eqb c (Zpos (XO (XO (XO (XO (XO (XO (XO (XO (XO (XO (XO (XO (XI
      XH)))))))))))))))

(** val lstrip_by : (z -> bool) -> z list -> z list **)

let rec lstrip_by p l = match l with
| [] -> []
| c :: l' -> if p c then lstrip_by p l' else l

(** val rstrip_by : (z -> bool) -> z list -> z list **)

let rec rstrip_by p = function
| [] -> []
| c :: l' ->
  (match rstrip_by p l' with
   | [] -> if p c then [] else c :: []
   | z0 :: l0 -> c :: (z0 :: l0))

(** val strip_by : (z -> bool) -> z list -> z list **)

let strip_by p l =
  lstrip_by p (rstrip_by p l)

(** val rstrip_nl : z list -> z list **)

let rstrip_nl l =
  rstrip_by (fun c -> Z.eqb c (Zpos (XO (XI (XO XH))))) l

(** val rstrip_py : z list -> z list **)

let rstrip_py l =
  rstrip_by is_space_py l

(** val strip_py : z list -> z list **)

let strip_py l =
  strip_by is_space_py l

(** val dec_fuel : nat -> z -> z list **)

let rec dec_fuel f n0 =
  match f with
  | O -> []
  | S f' ->
    if Z.ltb n0 (Zpos (XO (XI (XO XH))))
    then (Z.add (Zpos (XO (XO (XO (XO (XI XH)))))) n0) :: []
    else app (dec_fuel f' (Z.div n0 (Zpos (XO (XI (XO XH))))))
           ((Z.add (Zpos (XO (XO (XO (XO (XI XH))))))
              (Z.modulo n0 (Zpos (XO (XI (XO XH)))))) :: [])

(** val dec_fuel_of : z -> nat **)

let dec_fuel_of n0 =
  S (Z.to_nat (Z.log2 n0))

(** val dec_nonneg : z -> z list **)

let dec_nonneg n0 =
  dec_fuel (dec_fuel_of n0) n0

(** val dec : z -> z list **)

let dec n0 =
  if Z.ltb n0 Z0
  then (Zpos (XI (XO (XI (XI (XO XH)))))) :: (dec_nonneg (Z.opp n0))
  else dec_nonneg n0

(** val undec : z list -> z **)

let undec ds =
  fold_left (fun a c ->
    Z.add (Z.mul a (Zpos (XO (XI (XO XH)))))
      (Z.sub c (Zpos (XO (XO (XO (XO (XI XH)))))))) ds Z0

(** val take_digits : z list -> z list **)

let rec take_digits = function
| [] -> []
| c :: l' -> if is_digit c then c :: (take_digits l') else []

(** val ljust : z -> z list -> z list **)

let ljust w s =
  if Z.ltb (zlen s) w
  then app s
         (repeat (Zpos (XO (XO (XO (XO (XO XH))))))
           (Z.to_nat (Z.sub w (zlen s))))
  else s

(** val readlines_univ_aux : z list -> z list -> nat -> z list list **)

let rec readlines_univ_aux l cur = function
| O -> []
| S fuel' ->
  (match l with
   | [] -> (match cur with
            | [] -> []
            | _ :: _ -> (rev cur) :: [])
   | c :: l' ->
     (match c with
      | Zpos p ->
        (match p with
         | XI p0 ->
           (match p0 with
            | XO p1 ->
              (match p1 with
               | XI p2 ->
                 (match p2 with
                  | XH ->
                    (match l' with
                     | [] ->
                       (rev ((Zpos (XO (XI (XO XH)))) :: cur)) :: (readlines_univ_aux
                                                                    l' []
                                                                    fuel')
                     | z0 :: l'0 ->
                       (match z0 with
                        | Zpos p3 ->
                          (match p3 with
                           | XO p4 ->
                             (match p4 with
                              | XI p5 ->
                                (match p5 with
                                 | XO p6 ->
                                   (match p6 with
                                    | XH ->
                                      (rev ((Zpos (XO (XI (XO XH)))) :: cur)) :: 
                                        (readlines_univ_aux l'0 [] fuel')
                                    | _ ->
                                      (rev ((Zpos (XO (XI (XO XH)))) :: cur)) :: 
                                        (readlines_univ_aux l' [] fuel'))
                                 | _ ->
                                   (rev ((Zpos (XO (XI (XO XH)))) :: cur)) :: 
                                     (readlines_univ_aux l' [] fuel'))
                              | _ ->
                                (rev ((Zpos (XO (XI (XO XH)))) :: cur)) :: 
                                  (readlines_univ_aux l' [] fuel'))
                           | _ ->
                             (rev ((Zpos (XO (XI (XO XH)))) :: cur)) :: 
                               (readlines_univ_aux l' [] fuel'))
                        | _ ->
                          (rev ((Zpos (XO (XI (XO XH)))) :: cur)) :: 
                            (readlines_univ_aux l' [] fuel')))
                  | _ -> readlines_univ_aux l' (c :: cur) fuel')
               | _ -> readlines_univ_aux l' (c :: cur) fuel')
            | _ -> readlines_univ_aux l' (c :: cur) fuel')
         | XO p0 ->
           (match p0 with
            | XI p1 ->
              (match p1 with
               | XO p2 ->
                 (match p2 with
                  | XH ->
                    (rev ((Zpos (XO (XI (XO XH)))) :: cur)) :: (readlines_univ_aux
                                                                 l' [] fuel')
                  | _ -> readlines_univ_aux l' (c :: cur) fuel')
               | _ -> readlines_univ_aux l' (c :: cur) fuel')
            | _ -> readlines_univ_aux l' (c :: cur) fuel')
         | XH -> readlines_univ_aux l' (c :: cur) fuel')
      | _ -> readlines_univ_aux l' (c :: cur) fuel'))

(** val readlines_file : z list -> z list list **)

let readlines_file l =
  readlines_univ_aux l [] (S (length l))

(** val readlines_lf_aux : z list -> z list -> z list list **)

let rec readlines_lf_aux l cur =
  match l with
  | [] -> (match cur with
           | [] -> []
           | _ :: _ -> (rev cur) :: [])
  | c :: l' ->
    (match c with
     | Zpos p ->
       (match p with
        | XO p0 ->
          (match p0 with
           | XI p1 ->
             (match p1 with
              | XO p2 ->
                (match p2 with
                 | XH ->
                   (rev ((Zpos (XO (XI (XO XH)))) :: cur)) :: (readlines_lf_aux
                                                                l' [])
                 | _ -> readlines_lf_aux l' (c :: cur))
              | _ -> readlines_lf_aux l' (c :: cur))
           | _ -> readlines_lf_aux l' (c :: cur))
        | _ -> readlines_lf_aux l' (c :: cur))
     | _ -> readlines_lf_aux l' (c :: cur))

(** val readlines_stdin : z list -> z list list **)

let readlines_stdin l =
  readlines_lf_aux l []

(** val after_last_slash : z list -> nat **)

let after_last_slash p =
  match rfind_char (Zpos (XI (XI (XI (XI (XO XH)))))) p with
  | Some i -> S i
  | None -> O

(** val basename : z list -> z list **)

let basename p =
  skipn (after_last_slash p) p

(** val dirname : z list -> z list **)

let dirname p =
  let head = firstn (after_last_slash p) p in
  if forallb (fun c -> Z.eqb c (Zpos (XI (XI (XI (XI (XO XH))))))) head
  then head
  else rstrip_by (fun c -> Z.eqb c (Zpos (XI (XI (XI (XI (XO XH))))))) head

(** val ends_with_slash : z list -> bool **)

let ends_with_slash a =
  match rev a with
  | [] -> false
  | c :: _ -> Z.eqb c (Zpos (XI (XI (XI (XI (XO XH))))))

(** val path_join : z list -> z list -> z list **)

let path_join a b = match b with
| [] ->
  (match a with
   | [] -> b
   | _ :: _ ->
     if ends_with_slash a
     then app a b
     else app a (app ((Zpos (XI (XI (XI (XI (XO XH)))))) :: []) b))
| z0 :: _ ->
  (match z0 with
   | Zpos p ->
     (match p with
      | XI p0 ->
        (match p0 with
         | XI p1 ->
           (match p1 with
            | XI p2 ->
              (match p2 with
               | XI p3 ->
                 (match p3 with
                  | XO p4 ->
                    (match p4 with
                     | XH -> b
                     | _ ->
                       (match a with
                        | [] -> b
                        | _ :: _ ->
                          if ends_with_slash a
                          then app a b
                          else app a
                                 (app ((Zpos (XI (XI (XI (XI (XO
                                   XH)))))) :: []) b)))
                  | _ ->
                    (match a with
                     | [] -> b
                     | _ :: _ ->
                       if ends_with_slash a
                       then app a b
                       else app a
                              (app ((Zpos (XI (XI (XI (XI (XO XH)))))) :: [])
                                b)))
               | _ ->
                 (match a with
                  | [] -> b
                  | _ :: _ ->
                    if ends_with_slash a
                    then app a b
                    else app a
                           (app ((Zpos (XI (XI (XI (XI (XO XH)))))) :: []) b)))
            | _ ->
              (match a with
               | [] -> b
               | _ :: _ ->
                 if ends_with_slash a
                 then app a b
                 else app a (app ((Zpos (XI (XI (XI (XI (XO XH)))))) :: []) b)))
         | _ ->
           (match a with
            | [] -> b
            | _ :: _ ->
              if ends_with_slash a
              then app a b
              else app a (app ((Zpos (XI (XI (XI (XI (XO XH)))))) :: []) b)))
      | _ ->
        (match a with
         | [] -> b
         | _ :: _ ->
           if ends_with_slash a
           then app a b
           else app a (app ((Zpos (XI (XI (XI (XI (XO XH)))))) :: []) b)))
   | _ ->
     (match a with
      | [] -> b
      | _ :: _ ->
        if ends_with_slash a
        then app a b
        else app a (app ((Zpos (XI (XI (XI (XI (XO XH)))))) :: []) b)))

type fsmap = (z list * z list) list

(** val fs_read : fsmap -> z list -> z list option **)

let rec fs_read fs p =
  match fs with
  | [] -> None
  | p0 :: r ->
    let (q, c) = p0 in if zeqb_list p q then Some c else fs_read r p

(** val nl_rstrip_arg : z list **)

let nl_rstrip_arg =
  (Zpos (XO (XI (XO XH)))) :: []

(** val nl_default_increment : z **)

let nl_default_increment =
  Zpos (XO (XI (XO XH)))

(** val nl_default_start : z **)

let nl_default_start =
  Zpos (XO (XI (XO XH)))

(** val nl_default_width : z **)

let nl_default_width =
  Z0

(** val nl_next_numbered : z -> z -> z **)

let nl_next_numbered =
  Z.add

(** val nl_next_unnumbered : z -> z -> z **)

let nl_next_unnumbered =
  Z.add

(** val nl_pad_test : z list -> z -> bool **)

let nl_pad_test padded width =
  Z.ltb (zlen padded) width

(** val nl_pad_count : z list -> z -> z **)

let nl_pad_count padded width =
  Z.sub width (zlen padded)

(** val nl_separator : z list **)

let nl_separator =
  (Zpos (XO (XO (XO (XO (XO XH)))))) :: []

(** val prettier_rstrip_arg : z list **)

let prettier_rstrip_arg =
  (Zpos (XO (XI (XO XH)))) :: []

(** val prettier_toggle : z -> z list -> z **)

let prettier_toggle depth group =
  Z.coq_land (Z.add depth (zlen group)) (Zpos XH)

(** val prettier_toggle_test : z list -> bool **)

let prettier_toggle_test group =
  starts_with ((Zpos (XO (XI (XO (XO (XO XH)))))) :: []) group

(** val prettier_upper_test : z -> bool **)

let prettier_upper_test depth =
  Z.eqb depth Z0

(** val in_set : z list -> z -> bool **)

let in_set s c =
  existsb (Z.eqb c) s

(** val nl_match : z list -> z list option **)

let nl_match line = match line with
| [] -> None
| c :: r ->
  if (&&) (is_digit19 c)
       (negb (existsb (Z.eqb (Zpos (XO (XI (XO XH))))) (removelast line)))
  then Some (c :: (take_digits r))
  else None

(** val nl_step : z -> z -> z -> z list -> z list * z **)

let nl_step inc width n0 raw =
  let line = rstrip_by (in_set nl_rstrip_arg) raw in
  (match nl_match line with
   | Some ds -> (line, (nl_next_numbered (undec ds) inc))
   | None ->
     let padded = dec n0 in
     let padded0 =
       if nl_pad_test padded width
       then app padded
              (repeat (Zpos (XO (XO (XO (XO (XO XH))))))
                (Z.to_nat (nl_pad_count padded width)))
       else padded
     in
     ((app padded0 (app nl_separator line)), (nl_next_unnumbered n0 inc)))

(** val nl_lines : z -> z -> z -> z list list -> z list list **)

let rec nl_lines inc width n0 = function
| [] -> []
| r :: rs ->
  let (o, n') = nl_step inc width n0 r in o :: (nl_lines inc width n' rs)

(** val read_input : (bool * z list) -> z list list **)

let read_input i =
  if fst i then readlines_stdin (snd i) else readlines_file (snd i)

(** val nl_run : z -> z -> z -> (bool * z list) list -> z list list **)

let nl_run start inc width inputs =
  nl_lines inc width start (flat_map read_input inputs)

(** val split_groups : z list -> z list -> z list list **)

let rec split_groups l cur =
  match l with
  | [] -> (rev cur) :: []
  | c :: r ->
    if Z.eqb c (Zpos (XO (XI (XO (XO (XO XH))))))
    then split_groups r (c :: cur)
    else (rev cur) :: ((c :: []) :: (split_groups r []))

(** val prettier_groups : z -> z list list -> z list **)

let rec prettier_groups depth = function
| [] -> []
| g :: r ->
  let depth' =
    if prettier_toggle_test g then prettier_toggle depth g else depth
  in
  app (if prettier_upper_test depth' then upper_ascii g else g)
    (prettier_groups depth' r)

(** val prettier_line : z list -> z list **)

let prettier_line raw =
  prettier_groups Z0
    (split_groups (rstrip_by (in_set prettier_rstrip_arg) raw) [])

(** val prettier_run : (bool * z list) list -> z list list **)

let prettier_run inputs =
  map prettier_line (flat_map read_input inputs)

(** val pretty_spec : bool -> z list -> z list **)

let rec pretty_spec in_lit = function
| [] -> []
| c :: r ->
  if Z.eqb c (Zpos (XO (XI (XO (XO (XO XH))))))
  then c :: (pretty_spec (negb in_lit) r)
  else (if in_lit then c else upper_char c) :: (pretty_spec in_lit r)

(** val begins_numbered : z list -> bool **)

let begins_numbered = function
| [] -> false
| c :: _ -> is_digit19 c

(** val leading_number : z list -> z **)

let leading_number l =
  undec (take_digits l)

(** val nl_spec : z -> z -> z -> z option -> z list list -> z list list **)

let rec nl_spec start inc width prev = function
| [] -> []
| l :: r ->
  if begins_numbered l
  then l :: (nl_spec start inc width (Some (leading_number l)) r)
  else let n0 = match prev with
                | Some p -> Z.add p inc
                | None -> start in
       (app (ljust width (dec n0))
         (app ((Zpos (XO (XO (XO (XO (XO XH)))))) :: []) l)) :: (nl_spec
                                                                  start inc
                                                                  width (Some
                                                                  n0) r)

(** val chomp : z list -> z list **)

let chomp =
  rstrip_nl

(** val sync_read : z list **)

let sync_read =
  (Zpos XH) :: ((Zpos XH) :: ((Zpos XH) :: ((Zpos (XO (XO (XI (XI (XI
    XH)))))) :: ((Zpos (XO (XI (XO (XI (XI (XO XH))))))) :: []))))

(** val sync_write : z list **)

let sync_write =
  (Zpos XH) :: ((Zpos XH) :: ((Zpos XH) :: ((Zpos XH) :: ((Zpos XH) :: ((Zpos
    XH) :: ((Zpos XH) :: ((Zpos XH) :: ((Zpos XH) :: ((Zpos XH) :: ((Zpos
    XH) :: ((Zpos XH) :: ((Zpos XH) :: ((Zpos XH) :: ((Zpos XH) :: ((Zpos
    XH) :: ((Zpos (XO (XO (XI (XI (XI XH)))))) :: ((Zpos (XO (XI (XO (XI (XI
    (XO XH))))))) :: [])))))))))))))))))

(** val tape_default_size : z **)

let tape_default_size =
  Z.mul (Zpos (XI (XO (XI (XO XH))))) (Zpos (XO (XO (XO (XO (XO (XO (XO (XO
    (XO (XO XH)))))))))))

(** val block_type_LEADER : z **)

let block_type_LEADER =
  Z0

(** val block_type_DATA : z **)

let block_type_DATA =
  Zpos XH

(** val block_type_EOF : z **)

let block_type_EOF =
  Zpos (XI (XI (XI (XI (XI (XI (XI XH)))))))

(** val wb_next1 : z -> z **)

let wb_next1 position =
  Z.add position (zlen sync_write)

(** val wb_guard1 : z -> z -> bool **)

let wb_guard1 nextPosition maxPosition =
  Z.leb maxPosition nextPosition

(** val wb_next2 : z -> z list -> z **)

let wb_next2 position blockRaw =
  Z.add position (zlen blockRaw)

(** val wb_guard2 : z -> z -> bool **)

let wb_guard2 nextPosition maxPosition =
  Z.leb maxPosition nextPosition

(** val nb_after_sync : z -> z **)

let nb_after_sync pos =
  Z.add pos (zlen sync_read)

(** val nb_bound_test : z -> z -> bool **)

let nb_bound_test position maxPosition =
  Z.leb (Z.add position (Zpos (XO XH))) maxPosition

(** val nb_len_index : z -> z **)

let nb_len_index position =
  Z.add position (Zpos XH)

(** val nb_block_end : z -> z -> z **)

let nb_block_end position length0 =
  if Z.ltb Z0 length0
  then Z.add (Z.add position length0) (Zpos XH)
  else Z.add position (Zpos (XI (XO (XO (XO (XO (XO (XO (XO XH)))))))))

(** val checksum : z list -> z **)

let checksum data =
  let v_sum = Z0 in
  let v_sum0 =
    fold_left (fun v_sum0 v_byte ->
      Z.coq_land (Z.add v_sum0 v_byte) (Zpos (XI (XI (XI (XI (XI (XI (XI
        XH))))))))) data v_sum
  in
  Z.coq_land (Z.sub (Zpos (XO (XO (XO (XO (XO (XO (XO (XO XH))))))))) v_sum0)
    (Zpos (XI (XI (XI (XI (XI (XI (XI XH))))))))

(** val bb_eof : z -> z list **)

let bb_eof ty =
  ty :: ((Zpos (XO XH)) :: (Z0 :: []))

(** val bb_header : z -> z list -> z list **)

let bb_header ty data =
  ty :: ((Z.coq_land (Z.add (zlen data) (Zpos (XO XH))) (Zpos (XI (XI (XI (XI
           (XI (XI (XI XH))))))))) :: [])

(** val bb_trailer : z list -> z list **)

let bb_trailer data =
  (checksum data) :: []

(** val body_lo : z **)

let body_lo =
  Zpos (XO XH)

(** val body_hi_from_end : z **)

let body_hi_from_end =
  Zpos XH

(** val block_type_index : z **)

let block_type_index =
  Z0

(** val ld_name_lo : z **)

let ld_name_lo =
  Zpos (XO XH)

(** val ld_name_hi : z **)

let ld_name_hi =
  Zpos (XO (XI (XO XH)))

(** val ld_ext_lo : z **)

let ld_ext_lo =
  Zpos (XO (XI (XO XH)))

(** val ld_ext_hi : z **)

let ld_ext_hi =
  Zpos (XI (XO (XI XH)))

(** val ld_type_index : z **)

let ld_type_index =
  Zpos (XI (XO (XI XH)))

(** val ld_mode_of : z -> z -> z **)

let ld_mode_of hi lo =
  Z.add (Z.mul hi (Zpos (XO (XO (XO (XO (XO (XO (XO (XO XH)))))))))) lo

(** val ld_mode_hi_index : z **)

let ld_mode_hi_index =
  Zpos (XO (XI (XI XH)))

(** val ld_mode_lo_index : z **)

let ld_mode_lo_index =
  Zpos (XI (XI (XI XH)))

(** val ld_payload_size : z **)

let ld_payload_size =
  Zpos (XO (XI (XI XH)))

(** val ttb_name_lo : z **)

let ttb_name_lo =
  Z0

(** val ttb_name_hi : z **)

let ttb_name_hi =
  Zpos (XO (XO (XO XH)))

(** val ttb_name_cut_lo : z **)

let ttb_name_cut_lo =
  Z0

(** val ttb_name_cut_hi : z **)

let ttb_name_cut_hi =
  Zpos (XO (XO (XO XH)))

(** val ttb_name_pad : z list **)

let ttb_name_pad =
  (Zpos (XO (XO (XO (XO (XO XH)))))) :: ((Zpos (XO (XO (XO (XO (XO
    XH)))))) :: ((Zpos (XO (XO (XO (XO (XO XH)))))) :: ((Zpos (XO (XO (XO (XO
    (XO XH)))))) :: ((Zpos (XO (XO (XO (XO (XO XH)))))) :: ((Zpos (XO (XO (XO
    (XO (XO XH)))))) :: ((Zpos (XO (XO (XO (XO (XO XH)))))) :: ((Zpos (XO (XO
    (XO (XO (XO XH)))))) :: [])))))))

(** val ttb_ext_lo : z **)

let ttb_ext_lo =
  Zpos (XO (XO (XO XH)))

(** val ttb_ext_hi : z **)

let ttb_ext_hi =
  Zpos (XI (XI (XO XH)))

(** val ttb_ext_cut_lo : z **)

let ttb_ext_cut_lo =
  Z0

(** val ttb_ext_cut_hi : z **)

let ttb_ext_cut_hi =
  Zpos (XI XH)

(** val ttb_ext_pad : z list **)

let ttb_ext_pad =
  (Zpos (XO (XO (XO (XO (XO XH)))))) :: ((Zpos (XO (XO (XO (XO (XO
    XH)))))) :: ((Zpos (XO (XO (XO (XO (XO XH)))))) :: []))

(** val ttb_type_index : z **)

let ttb_type_index =
  Zpos (XI (XI (XO XH)))

(** val ttb_type_value : z -> z -> z **)

let ttb_type_value ftype _ =
  Z.coq_land ftype (Zpos (XI (XI (XI (XI (XI (XI (XI XH))))))))

(** val ttb_mode_hi_index : z **)

let ttb_mode_hi_index =
  Zpos (XO (XO (XI XH)))

(** val ttb_mode_hi_value : z -> z -> z **)

let ttb_mode_hi_value _ fmode =
  Z.coq_land (Z.shiftr fmode (Zpos (XO (XO (XO XH))))) (Zpos (XI (XI (XI (XI
    (XI (XI (XI XH))))))))

(** val ttb_mode_lo_index : z **)

let ttb_mode_lo_index =
  Zpos (XI (XO (XI XH)))

(** val ttb_mode_lo_value : z -> z -> z **)

let ttb_mode_lo_value _ fmode =
  Z.coq_land fmode (Zpos (XI (XI (XI (XI (XI (XI (XI XH))))))))

(** val ttb_block_type : z **)

let ttb_block_type =
  Z0

(** val inj_default_type : z **)

let inj_default_type =
  Zpos (XO XH)

(** val inj_default_mode : z **)

let inj_default_mode =
  Z0

(** val inj_dispatch : z list -> ((z list * z) * z) * bool **)

let inj_dispatch ext =
  if zeqb_list ext ((Zpos (XO (XI (XO (XO (XO (XO XH))))))) :: ((Zpos (XI (XO
       (XO (XO (XO (XO XH))))))) :: ((Zpos (XI (XI (XO (XO (XI (XO
       XH))))))) :: ((Zpos (XO (XO (XI (XI (XO XH)))))) :: ((Zpos (XI (XO (XO
       (XO (XO (XO XH))))))) :: [])))))
  then (((((Zpos (XO (XI (XO (XO (XO (XO XH))))))) :: ((Zpos (XI (XO (XO (XO
         (XO (XO XH))))))) :: ((Zpos (XI (XI (XO (XO (XI (XO
         XH))))))) :: []))), Z0), (Zpos (XI (XI (XI (XI (XI (XI (XI (XI (XI
         (XI (XI (XI (XI (XI (XI XH))))))))))))))))), true)
  else if zeqb_list ext ((Zpos (XO (XI (XO (XO (XO (XO XH))))))) :: ((Zpos
            (XI (XO (XO (XO (XO (XO XH))))))) :: ((Zpos (XI (XI (XO (XO (XI
            (XO XH))))))) :: [])))
       then (((ext, Z0), inj_default_mode), false)
       else if zeqb_list ext ((Zpos (XI (XI (XO (XO (XO (XO
                 XH))))))) :: ((Zpos (XI (XI (XO (XO (XI (XO
                 XH))))))) :: ((Zpos (XO (XI (XI (XO (XI (XO
                 XH))))))) :: [])))
            then (((ext, (Zpos XH)), inj_default_mode), false)
            else (((ext, inj_default_type), inj_default_mode), false)

(** val inj_name_limit : z **)

let inj_name_limit =
  Zpos (XO (XO (XO XH)))

(** val inj_next_pos : z -> z -> z **)

let inj_next_pos dataPos dataRemaining =
  if Z.ltb dataRemaining (Zpos (XO (XI (XI (XI (XI (XI (XI XH))))))))
  then Z.add dataPos dataRemaining
  else Z.add dataPos (Zpos (XO (XI (XI (XI (XI (XI (XI XH))))))))

(** val inj_overflow_status : z **)

let inj_overflow_status =
  Zpos XH

(** val inj_overflow_message : z list **)

let inj_overflow_message =
  (Zpos (XO (XO (XI (XO (XI (XO XH))))))) :: ((Zpos (XI (XI (XI (XI (XO (XI
    XH))))))) :: ((Zpos (XI (XI (XI (XI (XO (XI XH))))))) :: ((Zpos (XO (XO
    (XO (XO (XO XH)))))) :: ((Zpos (XI (XO (XI (XI (XO (XI
    XH))))))) :: ((Zpos (XI (XO (XI (XO (XI (XI XH))))))) :: ((Zpos (XI (XI
    (XO (XO (XO (XI XH))))))) :: ((Zpos (XO (XO (XO (XI (XO (XI
    XH))))))) :: ((Zpos (XO (XO (XO (XO (XO XH)))))) :: ((Zpos (XO (XO (XI
    (XO (XO (XI XH))))))) :: ((Zpos (XI (XO (XO (XO (XO (XI
    XH))))))) :: ((Zpos (XO (XO (XI (XO (XI (XI XH))))))) :: ((Zpos (XI (XO
    (XO (XO (XO (XI XH))))))) :: ((Zpos (XO (XO (XI (XI (XO
    XH)))))) :: ((Zpos (XO (XO (XO (XO (XO XH)))))) :: ((Zpos (XI (XO (XO (XO
    (XO (XI XH))))))) :: ((Zpos (XO (XI (XO (XO (XO (XI XH))))))) :: ((Zpos
    (XI (XI (XI (XI (XO (XI XH))))))) :: ((Zpos (XO (XI (XO (XO (XI (XI
    XH))))))) :: ((Zpos (XO (XO (XI (XO (XI (XI XH))))))) :: ((Zpos (XO (XO
    (XO (XO (XO XH)))))) :: ((Zpos (XI (XI (XO (XO (XO (XI
    XH))))))) :: ((Zpos (XO (XI (XO (XO (XI (XI XH))))))) :: ((Zpos (XI (XO
    (XI (XO (XO (XI XH))))))) :: ((Zpos (XI (XO (XO (XO (XO (XI
    XH))))))) :: ((Zpos (XO (XO (XI (XO (XI (XI XH))))))) :: ((Zpos (XI (XO
    (XO (XI (XO (XI XH))))))) :: ((Zpos (XI (XI (XI (XI (XO (XI
    XH))))))) :: ((Zpos (XO (XI (XI (XI (XO (XI XH))))))) :: ((Zpos (XO (XI
    (XI (XI (XO XH)))))) :: [])))))))))))))))))))))))))))))

(** val ext_sep_from : z list **)

let ext_sep_from =
  (Zpos (XI (XI (XI (XI (XO XH)))))) :: []

(** val ext_sep_to : z **)

let ext_sep_to =
  Zpos (XI (XI (XI (XI (XI (XO XH))))))

(** val zslice : z -> z -> z list -> z list **)

let zslice i j l =
  slice (Z.to_nat i) (Z.to_nat j) l

(** val zsplice : z -> z -> z list -> z list -> z list **)

let zsplice i j v l =
  splice (Z.to_nat i) (Z.to_nat j) v l

(** val znth : z -> z list -> z option **)

let znth i l =
  if Z.ltb i Z0 then None else nth_error l (Z.to_nat i)

type tape = { t_raw : z list; t_pos : z; t_max : z }

(** val tape_of_bytes : z list -> tape **)

let tape_of_bytes raw =
  { t_raw = raw; t_pos = Z0; t_max = (zlen raw) }

(** val blank_tape : tape **)

let blank_tape =
  tape_of_bytes (repeat Z0 (Z.to_nat tape_default_size))

(** val next_block : tape -> z list option * tape **)

let next_block t =
  match find_sub sync_read t.t_raw (Z.to_nat t.t_pos) with
  | Some p ->
    let position = nb_after_sync (Z.of_nat p) in
    if nb_bound_test position t.t_max
    then (match znth (nb_len_index position) t.t_raw with
          | Some length0 ->
            let blockEnd = nb_block_end position length0 in
            ((Some (zslice position blockEnd t.t_raw)), { t_raw = t.t_raw;
            t_pos = blockEnd; t_max = t.t_max })
          | None ->
            (None, { t_raw = t.t_raw; t_pos = position; t_max = t.t_max }))
    else (None, { t_raw = t.t_raw; t_pos = position; t_max = t.t_max })
  | None -> (None, { t_raw = t.t_raw; t_pos = t.t_max; t_max = t.t_max })

(** val write_block : tape -> z list -> tape res **)

let write_block t blockRaw =
  let position = t.t_pos in
  let nextPosition = wb_next1 position in
  if wb_guard1 nextPosition t.t_max
  then Err EOverflow
  else let raw1 = zsplice position nextPosition sync_write t.t_raw in
       let nextPosition0 = wb_next2 nextPosition blockRaw in
       if wb_guard2 nextPosition0 t.t_max
       then Err EOverflow
       else Ok { t_raw = (zsplice nextPosition nextPosition0 blockRaw raw1);
              t_pos = nextPosition0; t_max = t.t_max }

(** val build_block : z -> z list option -> z list **)

let build_block ty = function
| Some d -> app (bb_header ty d) (app d (bb_trailer d))
| None -> bb_eof ty

(** val block_body : z list -> z list **)

let block_body raw =
  slice (Z.to_nat body_lo) (sub (length raw) (Z.to_nat body_hi_from_end)) raw

type btype =
| BLeader
| BData
| BEof

(** val block_type : z list -> btype res **)

let block_type raw =
  match znth block_type_index raw with
  | Some b ->
    if Z.eqb b block_type_LEADER
    then Ok BLeader
    else if Z.eqb b block_type_DATA
         then Ok BData
         else if Z.eqb b block_type_EOF then Ok BEof else Err EValue
  | None -> Err EIndex

type leader = { l_name : z list; l_ext : z list; l_type : z; l_mode : z }

(** val decode_ascii : z list -> z list res **)

let decode_ascii b =
  if forallb (fun c ->
       (&&) (Z.leb Z0 c)
         (Z.ltb c (Zpos (XO (XO (XO (XO (XO (XO (XO XH)))))))))) b
  then Ok b
  else Err EUnicode

(** val leader_of_block : z list -> leader res **)

let leader_of_block raw =
  bind (decode_ascii (zslice ld_name_lo ld_name_hi raw)) (fun name ->
    bind (decode_ascii (zslice ld_ext_lo ld_ext_hi raw)) (fun ext ->
      match znth ld_type_index raw with
      | Some ty ->
        (match znth ld_mode_hi_index raw with
         | Some hi ->
           (match znth ld_mode_lo_index raw with
            | Some lo ->
              Ok { l_name = (strip_py name); l_ext = (strip_py ext); l_type =
                ty; l_mode = (ld_mode_of hi lo) }
            | None -> Err EIndex)
         | None -> Err EIndex)
      | None -> Err EIndex))

(** val leader_payload : leader -> z list **)

let leader_payload l =
  let data = repeat Z0 (Z.to_nat ld_payload_size) in
  let data0 =
    zsplice ttb_name_lo ttb_name_hi
      (zslice ttb_name_cut_lo ttb_name_cut_hi
        (app (upper_ascii l.l_name) ttb_name_pad)) data
  in
  let data1 =
    zsplice ttb_ext_lo ttb_ext_hi
      (zslice ttb_ext_cut_lo ttb_ext_cut_hi
        (app (upper_ascii l.l_ext) ttb_ext_pad)) data0
  in
  let data2 =
    zsplice ttb_type_index (Z.add ttb_type_index (Zpos XH))
      ((ttb_type_value l.l_type l.l_mode) :: []) data1
  in
  let data3 =
    zsplice ttb_mode_hi_index (Z.add ttb_mode_hi_index (Zpos XH))
      ((ttb_mode_hi_value l.l_type l.l_mode) :: []) data2
  in
  zsplice ttb_mode_lo_index (Z.add ttb_mode_lo_index (Zpos XH))
    ((ttb_mode_lo_value l.l_type l.l_mode) :: []) data3

(** val leader_block : leader -> z list **)

let leader_block l =
  build_block ttb_block_type (Some (leader_payload l))

type lst = { ls_idx : z; ls_cur : leader option option;
             ls_counts : ((z * z) * z) option }

(** val lst0 : lst **)

let lst0 =
  { ls_idx = Z0; ls_cur = None; ls_counts = None }

(** val on_begin : lst -> leader -> lst **)

let on_begin s d =
  let idx = Z.add s.ls_idx (Zpos XH) in
  { ls_idx = idx; ls_cur = (Some (Some d)); ls_counts = (Some ((Z0, Z0),
  idx)) }

(** val on_data : lst -> z list -> lst res **)

let on_data s blockRaw =
  match s.ls_counts with
  | Some p ->
    let (p0, fb) = p in
    let (bc, fs) = p0 in
    Ok { ls_idx = (Z.add s.ls_idx (Zpos XH)); ls_cur = s.ls_cur; ls_counts =
    (Some (((Z.add bc (Zpos XH)), (Z.add fs (zlen (block_body blockRaw)))),
    fb)) }
  | None -> Err EOther

(** val s_basic : z list **)

let s_basic =
  (Zpos (XO (XI (XO (XO (XO (XO XH))))))) :: ((Zpos (XI (XO (XO (XO (XO (XO
    XH))))))) :: ((Zpos (XI (XI (XO (XO (XI (XO XH))))))) :: ((Zpos (XI (XO
    (XO (XI (XO (XO XH))))))) :: ((Zpos (XI (XI (XO (XO (XO (XO
    XH))))))) :: []))))

(** val s_data : z list **)

let s_data =
  (Zpos (XO (XO (XI (XO (XO (XO XH))))))) :: ((Zpos (XI (XO (XO (XO (XO (XO
    XH))))))) :: ((Zpos (XO (XO (XI (XO (XI (XO XH))))))) :: ((Zpos (XI (XO
    (XO (XO (XO (XO XH))))))) :: [])))

(** val s_binary : z list **)

let s_binary =
  (Zpos (XO (XI (XO (XO (XO (XO XH))))))) :: ((Zpos (XI (XO (XO (XI (XO (XO
    XH))))))) :: ((Zpos (XO (XI (XI (XI (XO (XO XH))))))) :: ((Zpos (XI (XO
    (XO (XO (XO (XO XH))))))) :: ((Zpos (XO (XI (XO (XO (XI (XO
    XH))))))) :: ((Zpos (XI (XO (XO (XI (XI (XO XH))))))) :: [])))))

(** val s_ascii : z list **)

let s_ascii =
  (Zpos (XI (XO (XO (XO (XO (XO XH))))))) :: ((Zpos (XI (XI (XO (XO (XI (XO
    XH))))))) :: ((Zpos (XI (XI (XO (XO (XO (XO XH))))))) :: ((Zpos (XI (XO
    (XO (XI (XO (XO XH))))))) :: ((Zpos (XI (XO (XO (XI (XO (XO
    XH))))))) :: []))))

(** val s_token : z list **)

let s_token =
  (Zpos (XO (XO (XI (XO (XI (XO XH))))))) :: ((Zpos (XI (XI (XI (XI (XO (XO
    XH))))))) :: ((Zpos (XI (XI (XO (XI (XO (XO XH))))))) :: ((Zpos (XI (XO
    (XI (XO (XO (XO XH))))))) :: ((Zpos (XO (XI (XI (XI (XO (XO
    XH))))))) :: []))))

(** val s_octets : z list **)

let s_octets =
  (Zpos (XO (XO (XO (XO (XO XH)))))) :: ((Zpos (XI (XI (XI (XI (XO (XI
    XH))))))) :: ((Zpos (XI (XI (XO (XO (XO (XI XH))))))) :: ((Zpos (XO (XO
    (XI (XO (XI (XI XH))))))) :: ((Zpos (XI (XO (XI (XO (XO (XI
    XH))))))) :: ((Zpos (XO (XO (XI (XO (XI (XI XH))))))) :: ((Zpos (XI (XI
    (XO (XO (XI (XI XH))))))) :: []))))))

(** val s_blocks : z list **)

let s_blocks =
  (Zpos (XO (XO (XO (XO (XO XH)))))) :: ((Zpos (XO (XI (XO (XO (XO (XI
    XH))))))) :: ((Zpos (XO (XO (XI (XI (XO (XI XH))))))) :: ((Zpos (XI (XI
    (XI (XI (XO (XI XH))))))) :: ((Zpos (XI (XI (XO (XO (XO (XI
    XH))))))) :: ((Zpos (XI (XI (XO (XI (XO (XI XH))))))) :: ((Zpos (XI (XI
    (XO (XO (XI (XI XH))))))) :: ((Zpos (XO (XI (XI (XI (XO
    XH)))))) :: [])))))))

(** val file_label : leader -> z list **)

let file_label d =
  app d.l_name (app ((Zpos (XO (XI (XI (XI (XO XH)))))) :: []) d.l_ext)

(** val safe_label : leader -> z list **)

let safe_label d =
  map (fun c -> if zeqb_list (c :: []) ext_sep_from then ext_sep_to else c)
    (file_label d)

(** val render_entry : bool -> leader -> z -> z -> z -> z list **)

let render_entry verbose d bc fs fb =
  if verbose
  then let ftype =
         if Z.eqb d.l_type Z0
         then s_basic
         else if Z.eqb d.l_type (Zpos XH) then s_data else s_binary
       in
       let fmode =
         if Z.eqb d.l_type Z0
         then if Z.eqb d.l_mode (Zpos (XI (XI (XI (XI (XI (XI (XI (XI (XI (XI
                   (XI (XI (XI (XI (XI XH))))))))))))))))
              then s_ascii
              else s_token
         else dec d.l_mode
       in
       app (file_label d)
         (app ((Zpos (XI (XO (XO XH)))) :: [])
           (app ftype
             (app ((Zpos (XI (XO (XO XH)))) :: [])
               (app fmode
                 (app ((Zpos (XI (XO (XO XH)))) :: ((Zpos (XI (XI (XO (XO (XO
                   XH)))))) :: []))
                   (app (dec fb)
                     (app ((Zpos (XI (XO (XO XH)))) :: [])
                       (app (dec fs)
                         (app s_octets
                           (app ((Zpos (XI (XO (XO XH)))) :: [])
                             (app (dec bc) s_blocks)))))))))))
  else file_label d

(** val on_end : bool -> lst -> (z list * lst) res **)

let on_end verbose s =
  match s.ls_cur with
  | Some o ->
    (match o with
     | Some d ->
       (match s.ls_counts with
        | Some p ->
          let (p0, fb) = p in
          let (bc, fs) = p0 in
          Ok ((render_entry verbose d bc fs fb), { ls_idx =
          (Z.add s.ls_idx (Zpos XH)); ls_cur = (Some None); ls_counts =
          s.ls_counts })
        | None -> Err EOther)
     | None -> Err EOther)
  | None -> Err EOther

type effect =
| WriteFile of z list * z list
| MkDir of z list

type outcome = { o_status : z; o_lines : z list list;
                 o_effects : effect list; o_crash : err option }

(** val enumerate_loop :
    nat -> bool -> tape -> lst -> z list list -> (z list list * err option)
    option **)

let rec enumerate_loop fuel verbose t s acc =
  match fuel with
  | O -> None
  | S fuel' ->
    let (o, t') = next_block t in
    (match o with
     | Some b ->
       (match block_type b with
        | Ok a ->
          (match a with
           | BLeader ->
             (match leader_of_block b with
              | Ok d -> enumerate_loop fuel' verbose t' (on_begin s d) acc
              | Err e -> Some ((rev acc), (Some e)))
           | BData ->
             (match on_data s b with
              | Ok s' -> enumerate_loop fuel' verbose t' s' acc
              | Err e -> Some ((rev acc), (Some e)))
           | BEof ->
             (match on_end verbose s with
              | Ok a0 ->
                let (line, s') = a0 in
                enumerate_loop fuel' verbose t' s' (line :: acc)
              | Err e -> Some ((rev acc), (Some e))))
        | Err e -> Some ((rev acc), (Some e)))
     | None -> Some ((rev acc), None))

(** val fuel_of : z list -> nat **)

let fuel_of raw =
  S (length raw)

(** val finish :
    ((z list list * effect list) * err option) option -> outcome **)

let finish = function
| Some p ->
  let (p0, o) = p in
  let (ls, fx) = p0 in
  (match o with
   | Some e ->
     { o_status = (Zpos XH); o_lines = ls; o_effects = fx; o_crash = (Some
       e) }
   | None -> { o_status = Z0; o_lines = ls; o_effects = fx; o_crash = None })
| None ->
  { o_status = (Zneg XH); o_lines = []; o_effects = []; o_crash = (Some
    EOther) }

(** val tar_list : bool -> z list -> outcome **)

let tar_list verbose raw =
  finish
    (match enumerate_loop (fuel_of raw) verbose (tape_of_bytes raw) lst0 [] with
     | Some p -> let (ls, e) = p in Some ((ls, []), e)
     | None -> None)

(** val extract_loop :
    nat -> bool -> z list -> tape -> lst -> leader option -> z list option ->
    z list list -> effect list -> ((z list list * effect list) * err option)
    option **)

let rec extract_loop fuel verbose target t s desc content acc fx =
  match fuel with
  | O -> None
  | S fuel' ->
    let (o, t') = next_block t in
    (match o with
     | Some b ->
       (match block_type b with
        | Ok a ->
          (match a with
           | BLeader ->
             (match leader_of_block b with
              | Ok d ->
                extract_loop fuel' verbose target t' (on_begin s d) (Some d)
                  (Some []) acc fx
              | Err e -> Some (((rev acc), (rev fx)), (Some e)))
           | BData ->
             (match on_data s b with
              | Ok s' ->
                (match content with
                 | Some c ->
                   extract_loop fuel' verbose target t' s' desc (Some
                     (app c (block_body b))) acc fx
                 | None -> Some (((rev acc), (rev fx)), (Some EOther)))
              | Err e -> Some (((rev acc), (rev fx)), (Some e)))
           | BEof ->
             (match desc with
              | Some d ->
                (match content with
                 | Some c ->
                   if existsb (Z.eqb Z0) (path_join target (safe_label d))
                   then Some (((rev acc), (rev fx)), (Some EValue))
                   else let fx' = (WriteFile
                          ((path_join target (safe_label d)), c)) :: fx
                        in
                        (match on_end verbose s with
                         | Ok a0 ->
                           let (line, s') = a0 in
                           extract_loop fuel' verbose target t' s' desc
                             content (line :: acc) fx'
                         | Err e -> Some (((rev acc), (rev fx')), (Some e)))
                 | None -> Some (((rev acc), (rev fx)), (Some EOther)))
              | None -> Some (((rev acc), (rev fx)), (Some EOther))))
        | Err e -> Some (((rev acc), (rev fx)), (Some e)))
     | None -> Some (((rev acc), (rev fx)), None))

(** val tar_extract : bool -> z list option -> z list -> z list -> outcome **)

let tar_extract verbose into archive raw =
  let target = match into with
               | Some d -> d
               | None -> dirname archive in
  let pre = match into with
            | Some d -> (MkDir d) :: []
            | None -> [] in
  finish
    (extract_loop (fuel_of raw) verbose target (tape_of_bytes raw) lst0 None
      None [] (rev pre))

(** val source_fields : z list -> leader * z list **)

let source_fields src =
  let base = basename src in
  (match rfind_char (Zpos (XO (XI (XI (XI (XO XH)))))) base with
   | Some dot ->
     let name = upper_ascii (firstn dot base) in
     let name0 =
       if Z.ltb inj_name_limit (zlen name)
       then firstn (Z.to_nat inj_name_limit) name
       else name
     in
     let (p, strip) = inj_dispatch (upper_ascii (skipn (S dot) base)) in
     let (p0, mode) = p in
     let (ext, ty) = p0 in
     ({ l_name = name0; l_ext = ext; l_type = ty; l_mode = mode },
     (if strip then drop_last (S (S O)) src else src))
   | None ->
     ({ l_name = (upper_ascii base); l_ext = []; l_type = inj_default_type;
       l_mode = inj_default_mode }, src))

(** val write_data : nat -> tape -> lst -> z list -> z -> (tape * lst) res **)

let rec write_data fuel t s data dataPos =
  match fuel with
  | O -> Err EOther
  | S fuel' ->
    let dataMax = zlen data in
    if Z.ltb dataPos dataMax
    then let dataNextPos = inj_next_pos dataPos (Z.sub dataMax dataPos) in
         let block =
           build_block block_type_DATA (Some
             (zslice dataPos dataNextPos data))
         in
         bind (write_block t block) (fun t' ->
           bind (on_data s block) (fun s' ->
             write_data fuel' t' s' data dataNextPos))
    else Ok (t, s)

(** val inject_one :
    bool -> fsmap -> tape -> lst -> z list -> ((tape * lst) * z list) res **)

let inject_one verbose fs t s src =
  let (d, path) = source_fields src in
  bind (write_block t (leader_block d)) (fun t1 ->
    let s1 = on_begin s d in
    (match fs_read fs path with
     | Some data ->
       bind (write_data (S (length data)) t1 s1 data Z0) (fun pat ->
         let (t2, s2) = pat in
         bind (write_block t2 (build_block block_type_EOF None)) (fun t3 ->
           bind (on_end verbose s2) (fun pat0 ->
             let (line, s3) = pat0 in Ok ((t3, s3), line))))
     | None -> Err ENoEnt))

(** val inject_loop :
    bool -> fsmap -> tape -> lst -> z list list -> z list list -> z list
    list * tape res **)

let rec inject_loop verbose fs t s srcs acc =
  match srcs with
  | [] -> ((rev acc), (Ok t))
  | src :: rest ->
    (match inject_one verbose fs t s src with
     | Ok a ->
       let (p, line) = a in
       let (t', s') = p in inject_loop verbose fs t' s' rest (line :: acc)
     | Err e -> ((rev acc), (Err e)))

(** val tar_create : bool -> fsmap -> z list -> z list list -> outcome **)

let tar_create verbose fs archive srcs =
  let (ls, r) = inject_loop verbose fs blank_tape lst0 srcs [] in
  (match r with
   | Ok t ->
     { o_status = Z0; o_lines = ls; o_effects = ((WriteFile (archive,
       t.t_raw)) :: []); o_crash = None }
   | Err e ->
     (match e with
      | EOverflow ->
        { o_status = inj_overflow_status; o_lines =
          (app ls (inj_overflow_message :: [])); o_effects = []; o_crash =
          None }
      | _ ->
        { o_status = (Zpos XH); o_lines = ls; o_effects = []; o_crash = (Some
          e) }))

type k7_file = { k_name : z list; k_ext : z list; k_kind : z; k_mode : 
                 z; k_chunks : z list list }

(** val sum_bytes : z list -> z **)

let sum_bytes p =
  fold_right Z.add Z0 p

(** val ck_ok : z list -> z -> bool **)

let ck_ok p ck =
  (&&)
    ((&&)
      (Z.eqb
        (Z.modulo (Z.add (sum_bytes p) ck) (Zpos (XO (XO (XO (XO (XO (XO (XO
          (XO XH)))))))))) Z0) (Z.leb Z0 ck))
    (Z.ltb ck (Zpos (XO (XO (XO (XO (XO (XO (XO (XO XH))))))))))

(** val ck_of : z list -> z **)

let ck_of p =
  Z.modulo
    (Z.sub (Zpos (XO (XO (XO (XO (XO (XO (XO (XO XH)))))))))
      (Z.modulo (sum_bytes p) (Zpos (XO (XO (XO (XO (XO (XO (XO (XO
        XH))))))))))) (Zpos (XO (XO (XO (XO (XO (XO (XO (XO XH)))))))))

(** val k7_marker : z list **)

let k7_marker =
  (Zpos (XO (XO (XI (XI (XI XH)))))) :: ((Zpos (XO (XI (XO (XI (XI (XO
    XH))))))) :: [])

(** val k7_block : z -> z list -> z list **)

let k7_block ty p =
  app
    (repeat (Zpos XH) (S (S (S (S (S (S (S (S (S (S (S (S (S (S (S (S
      O)))))))))))))))))
    (app k7_marker
      (app
        (ty :: ((Z.modulo (Z.add (zlen p) (Zpos (XO XH))) (Zpos (XO (XO (XO
                  (XO (XO (XO (XO (XO XH)))))))))) :: []))
        (app p ((ck_of p) :: []))))

(** val k7_leader_payload : k7_file -> z list **)

let k7_leader_payload f =
  app f.k_name
    (app f.k_ext
      (f.k_kind :: ((Z.div f.k_mode (Zpos (XO (XO (XO (XO (XO (XO (XO (XO
                      XH)))))))))) :: ((Z.modulo f.k_mode (Zpos (XO (XO (XO
                                         (XO (XO (XO (XO (XO XH)))))))))) :: []))))

(** val k7_end_block : z list **)

let k7_end_block =
  app
    (repeat (Zpos XH) (S (S (S (S (S (S (S (S (S (S (S (S (S (S (S (S
      O)))))))))))))))))
    (app k7_marker ((Zpos (XI (XI (XI (XI (XI (XI (XI XH)))))))) :: ((Zpos
      (XO XH)) :: (Z0 :: []))))

(** val k7_file_image : k7_file -> z list **)

let k7_file_image f =
  app (k7_block Z0 (k7_leader_payload f))
    (app (concat (map (k7_block (Zpos XH)) f.k_chunks)) k7_end_block)

(** val k7_encoded_size : k7_file list -> z **)

let k7_encoded_size fs =
  fold_right (fun f a ->
    Z.add
      (Z.add
        (Z.add (Zpos (XI (XI (XO (XO (XO XH))))))
          (fold_right (fun c b ->
            Z.add (Z.add (Zpos (XI (XO (XI (XO XH))))) (zlen c)) b) Z0
            f.k_chunks)) (Zpos (XI (XO (XI (XO XH)))))) a) Z0 fs

(** val strict_prefix : z list **)

let strict_prefix =
  app
    (repeat (Zpos XH) (S (S (S (S (S (S (S (S (S (S (S (S (S (S (S (S
      O))))))))))))))))) k7_marker

(** val parse_block : z list -> ((z * z list) * z list) option **)

let parse_block l =
  if starts_with strict_prefix l
  then (match skipn (S (S (S (S (S (S (S (S (S (S (S (S (S (S (S (S (S (S
                O)))))))))))))))))) l with
        | [] -> None
        | ty :: l0 ->
          (match l0 with
           | [] -> None
           | lb :: r ->
             let n0 =
               if Z.eqb lb Z0
               then Zpos (XO (XO (XO (XO (XO (XO (XO (XO XH))))))))
               else lb
             in
             if (&&)
                  ((&&)
                    ((&&) (Z.leb (Zpos (XO XH)) n0)
                      (Z.leb (Z.sub n0 (Zpos (XO XH))) (Zpos (XO (XI (XI (XI
                        (XI (XI (XI XH)))))))))) (byteb ty)) (byteb lb)
             then let k = Z.to_nat (Z.sub n0 (Zpos (XO XH))) in
                  let p = firstn k r in
                  (match skipn k r with
                   | [] -> None
                   | ck :: rest ->
                     if (&&)
                          ((&&) (Z.eqb (zlen p) (Z.sub n0 (Zpos (XO XH))))
                            (bytesb p)) (ck_ok p ck)
                     then Some ((ty, p), rest)
                     else None)
             else None))
  else None

(** val parse_data :
    nat -> z list -> z list list -> (z list list * z list) option **)

let rec parse_data fuel l acc =
  match fuel with
  | O -> None
  | S fuel' ->
    (match parse_block l with
     | Some p0 ->
       let (p1, rest) = p0 in
       let (z0, p) = p1 in
       (match z0 with
        | Zpos p2 ->
          (match p2 with
           | XI p3 ->
             (match p3 with
              | XI p4 ->
                (match p4 with
                 | XI p5 ->
                   (match p5 with
                    | XI p6 ->
                      (match p6 with
                       | XI p7 ->
                         (match p7 with
                          | XI p8 ->
                            (match p8 with
                             | XI p9 ->
                               (match p9 with
                                | XH ->
                                  (match p with
                                   | [] -> Some ((rev acc), rest)
                                   | _ :: _ -> None)
                                | _ -> None)
                             | _ -> None)
                          | _ -> None)
                       | _ -> None)
                    | _ -> None)
                 | _ -> None)
              | _ -> None)
           | XO _ -> None
           | XH -> parse_data fuel' rest (p :: acc))
        | _ -> None)
     | None -> None)

(** val parse_file : z list -> (k7_file * z list) option **)

let parse_file l =
  match parse_block l with
  | Some p0 ->
    let (p1, rest) = p0 in
    let (z0, p) = p1 in
    (match z0 with
     | Z0 ->
       if Z.eqb (zlen p) (Zpos (XO (XI (XI XH))))
       then (match parse_data (S (length rest)) rest [] with
             | Some p2 ->
               let (chunks, rest') = p2 in
               Some ({ k_name = (firstn (S (S (S (S (S (S (S (S O)))))))) p);
               k_ext =
               (firstn (S (S (S O)))
                 (skipn (S (S (S (S (S (S (S (S O)))))))) p)); k_kind =
               (nth (S (S (S (S (S (S (S (S (S (S (S O))))))))))) p Z0);
               k_mode =
               (Z.add
                 (Z.mul
                   (nth (S (S (S (S (S (S (S (S (S (S (S (S O)))))))))))) p
                     Z0) (Zpos (XO (XO (XO (XO (XO (XO (XO (XO XH))))))))))
                 (nth (S (S (S (S (S (S (S (S (S (S (S (S (S O))))))))))))) p
                   Z0)); k_chunks = chunks }, rest')
             | None -> None)
       else None
     | _ -> None)
  | None -> None

(** val parse_files : nat -> z list -> k7_file list -> k7_file list option **)

let rec parse_files fuel l acc =
  match fuel with
  | O -> None
  | S fuel' ->
    if forallb (fun c -> Z.eqb c Z0) l
    then Some (rev acc)
    else (match parse_file l with
          | Some p -> let (f, rest) = p in parse_files fuel' rest (f :: acc)
          | None -> None)

(** val k7_decode : z list -> k7_file list option **)

let k7_decode raw =
  parse_files (S (length raw)) raw []

(** val doc_kind_mode : z list -> (z list * z) * z **)

let doc_kind_mode ext_upper =
  if zeqb_list ext_upper ((Zpos (XO (XI (XO (XO (XO (XO XH))))))) :: ((Zpos
       (XI (XO (XO (XO (XO (XO XH))))))) :: ((Zpos (XI (XI (XO (XO (XI (XO
       XH))))))) :: ((Zpos (XO (XO (XI (XI (XO XH)))))) :: ((Zpos (XI (XO (XO
       (XO (XO (XO XH))))))) :: [])))))
  then ((((Zpos (XO (XI (XO (XO (XO (XO XH))))))) :: ((Zpos (XI (XO (XO (XO
         (XO (XO XH))))))) :: ((Zpos (XI (XI (XO (XO (XI (XO
         XH))))))) :: []))), Z0), (Zpos (XI (XI (XI (XI (XI (XI (XI (XI (XI
         (XI (XI (XI (XI (XI (XI XH)))))))))))))))))
  else if zeqb_list ext_upper ((Zpos (XO (XI (XO (XO (XO (XO
            XH))))))) :: ((Zpos (XI (XO (XO (XO (XO (XO XH))))))) :: ((Zpos
            (XI (XI (XO (XO (XI (XO XH))))))) :: [])))
       then ((ext_upper, Z0), Z0)
       else if zeqb_list ext_upper ((Zpos (XI (XI (XO (XO (XO (XO
                 XH))))))) :: ((Zpos (XI (XI (XO (XO (XI (XO
                 XH))))))) :: ((Zpos (XO (XI (XI (XO (XI (XO
                 XH))))))) :: [])))
            then ((ext_upper, (Zpos XH)), Z0)
            else ((ext_upper, (Zpos (XO XH))), Z0)

(** val pad_field : nat -> z list -> z list **)

let pad_field n0 s =
  firstn n0 (app s (repeat (Zpos (XO (XO (XO (XO (XO XH)))))) n0))

(** val chunks_of : nat -> nat -> z list -> z list list **)

let rec chunks_of fuel n0 l =
  match fuel with
  | O -> []
  | S fuel' ->
    (match l with
     | [] -> []
     | _ :: _ -> (firstn n0 l) :: (chunks_of fuel' n0 (skipn n0 l)))

(** val doc_split : z list -> z list * z list **)

let doc_split src =
  let base = basename src in
  (match rfind_char (Zpos (XO (XI (XI (XI (XO XH)))))) base with
   | Some d ->
     ((upper_ascii (firstn d base)), (upper_ascii (skipn (S d) base)))
   | None -> ((upper_ascii base), []))

(** val doc_entry : z list -> z list -> k7_file **)

let doc_entry src content =
  let (name, ext0) = doc_split src in
  let (p, mode) = doc_kind_mode ext0 in
  let (ext, kind) = p in
  { k_name = (pad_field (S (S (S (S (S (S (S (S O)))))))) name); k_ext =
  (pad_field (S (S (S O))) ext); k_kind = kind; k_mode = mode; k_chunks =
  (chunks_of (S (length content)) (S (S (S (S (S (S (S (S (S (S (S (S (S (S
    (S (S (S (S (S (S (S (S (S (S (S (S (S (S (S (S (S (S (S (S (S (S (S (S
    (S (S (S (S (S (S (S (S (S (S (S (S (S (S (S (S (S (S (S (S (S (S (S (S
    (S (S (S (S (S (S (S (S (S (S (S (S (S (S (S (S (S (S (S (S (S (S (S (S
    (S (S (S (S (S (S (S (S (S (S (S (S (S (S (S (S (S (S (S (S (S (S (S (S
    (S (S (S (S (S (S (S (S (S (S (S (S (S (S (S (S (S (S (S (S (S (S (S (S
    (S (S (S (S (S (S (S (S (S (S (S (S (S (S (S (S (S (S (S (S (S (S (S (S
    (S (S (S (S (S (S (S (S (S (S (S (S (S (S (S (S (S (S (S (S (S (S (S (S
    (S (S (S (S (S (S (S (S (S (S (S (S (S (S (S (S (S (S (S (S (S (S (S (S
    (S (S (S (S (S (S (S (S (S (S (S (S (S (S (S (S (S (S (S (S (S (S (S (S
    (S (S (S (S (S (S (S (S (S (S (S (S (S (S (S (S (S (S (S (S (S (S (S (S
    O))))))))))))))))))))))))))))))))))))))))))))))))))))))))))))))))))))))))))))))))))))))))))))))))))))))))))))))))))))))))))))))))))))))))))))))))))))))))))))))))))))))))))))))))))))))))))))))))))))))))))))))))))))))))))))))))))))))))))))))))))))))))))))))
    content) }

(** val doc_path : z list -> z list **)

let doc_path src =
  if (&&)
       (zeqb_list (upper_ascii (last_n (S (S O)) src)) ((Zpos (XO (XO (XI (XI
         (XO XH)))))) :: ((Zpos (XI (XO (XO (XO (XO (XO XH))))))) :: [])))
       (zeqb_list (upper_ascii (snd (doc_split src))) ((Zpos (XO (XI (XO (XO
         (XO (XO XH))))))) :: ((Zpos (XI (XO (XO (XO (XO (XO
         XH))))))) :: ((Zpos (XI (XI (XO (XO (XI (XO XH))))))) :: ((Zpos (XO
         (XO (XI (XI (XO XH)))))) :: ((Zpos (XI (XO (XO (XO (XO (XO
         XH))))))) :: []))))))
  then drop_last (S (S O)) src
  else src

(** val basic_tokens : (z list * z) list **)

let basic_tokens =
  (((Zpos (XI (XO (XI (XO (XO (XO XH))))))) :: ((Zpos (XO (XI (XI (XI (XO (XO
    XH))))))) :: ((Zpos (XO (XO (XI (XO (XO (XO XH))))))) :: []))), (Zpos (XO
    (XO (XO (XO (XO (XO (XO XH))))))))) :: ((((Zpos (XO (XI (XI (XO (XO (XO
    XH))))))) :: ((Zpos (XI (XI (XI (XI (XO (XO XH))))))) :: ((Zpos (XO (XI
    (XO (XO (XI (XO XH))))))) :: []))), (Zpos (XI (XO (XO (XO (XO (XO (XO
    XH))))))))) :: ((((Zpos (XO (XI (XI (XI (XO (XO XH))))))) :: ((Zpos (XI
    (XO (XI (XO (XO (XO XH))))))) :: ((Zpos (XO (XO (XO (XI (XI (XO
    XH))))))) :: ((Zpos (XO (XO (XI (XO (XI (XO XH))))))) :: [])))), (Zpos
    (XO (XI (XO (XO (XO (XO (XO XH))))))))) :: ((((Zpos (XO (XO (XI (XO (XO
    (XO XH))))))) :: ((Zpos (XI (XO (XO (XO (XO (XO XH))))))) :: ((Zpos (XO
    (XO (XI (XO (XI (XO XH))))))) :: ((Zpos (XI (XO (XO (XO (XO (XO
    XH))))))) :: [])))), (Zpos (XI (XI (XO (XO (XO (XO (XO
    XH))))))))) :: ((((Zpos (XO (XO (XI (XO (XO (XO XH))))))) :: ((Zpos (XI
    (XO (XO (XI (XO (XO XH))))))) :: ((Zpos (XI (XO (XI (XI (XO (XO
    XH))))))) :: []))), (Zpos (XO (XO (XI (XO (XO (XO (XO
    XH))))))))) :: ((((Zpos (XO (XI (XO (XO (XI (XO XH))))))) :: ((Zpos (XI
    (XO (XI (XO (XO (XO XH))))))) :: ((Zpos (XI (XO (XO (XO (XO (XO
    XH))))))) :: ((Zpos (XO (XO (XI (XO (XO (XO XH))))))) :: [])))), (Zpos
    (XI (XO (XI (XO (XO (XO (XO XH))))))))) :: ((((Zpos (XI (XI (XI (XO (XO
    (XO XH))))))) :: ((Zpos (XI (XI (XI (XI (XO (XO XH))))))) :: [])), (Zpos
    (XI (XI (XI (XO (XO (XO (XO XH))))))))) :: ((((Zpos (XO (XI (XO (XO (XI
    (XO XH))))))) :: ((Zpos (XI (XO (XI (XO (XI (XO XH))))))) :: ((Zpos (XO
    (XI (XI (XI (XO (XO XH))))))) :: []))), (Zpos (XO (XO (XO (XI (XO (XO (XO
    XH))))))))) :: ((((Zpos (XI (XO (XO (XI (XO (XO XH))))))) :: ((Zpos (XO
    (XI (XI (XO (XO (XO XH))))))) :: [])), (Zpos (XI (XO (XO (XI (XO (XO (XO
    XH))))))))) :: ((((Zpos (XO (XI (XO (XO (XI (XO XH))))))) :: ((Zpos (XI
    (XO (XI (XO (XO (XO XH))))))) :: ((Zpos (XI (XI (XO (XO (XI (XO
    XH))))))) :: ((Zpos (XO (XO (XI (XO (XI (XO XH))))))) :: ((Zpos (XI (XI
    (XI (XI (XO (XO XH))))))) :: ((Zpos (XO (XI (XO (XO (XI (XO
    XH))))))) :: ((Zpos (XI (XO (XI (XO (XO (XO XH))))))) :: []))))))), (Zpos
    (XO (XI (XO (XI (XO (XO (XO XH))))))))) :: ((((Zpos (XO (XI (XO (XO (XI
    (XO XH))))))) :: ((Zpos (XI (XO (XI (XO (XO (XO XH))))))) :: ((Zpos (XO
    (XO (XI (XO (XI (XO XH))))))) :: ((Zpos (XI (XO (XI (XO (XI (XO
    XH))))))) :: ((Zpos (XO (XI (XO (XO (XI (XO XH))))))) :: ((Zpos (XO (XI
    (XI (XI (XO (XO XH))))))) :: [])))))), (Zpos (XI (XI (XO (XI (XO (XO (XO
    XH))))))))) :: ((((Zpos (XO (XI (XO (XO (XI (XO XH))))))) :: ((Zpos (XI
    (XO (XI (XO (XO (XO XH))))))) :: ((Zpos (XI (XO (XI (XI (XO (XO
    XH))))))) :: []))), (Zpos (XO (XO (XI (XI (XO (XO (XO
    XH))))))))) :: ((((Zpos (XI (XI (XI (XO (XO XH)))))) :: []), (Zpos (XI
    (XO (XI (XI (XO (XO (XO XH))))))))) :: ((((Zpos (XI (XI (XO (XO (XI (XO
    XH))))))) :: ((Zpos (XO (XO (XI (XO (XI (XO XH))))))) :: ((Zpos (XI (XI
    (XI (XI (XO (XO XH))))))) :: ((Zpos (XO (XO (XO (XO (XI (XO
    XH))))))) :: [])))), (Zpos (XO (XI (XI (XI (XO (XO (XO
    XH))))))))) :: ((((Zpos (XI (XO (XI (XO (XO (XO XH))))))) :: ((Zpos (XO
    (XO (XI (XI (XO (XO XH))))))) :: ((Zpos (XI (XI (XO (XO (XI (XO
    XH))))))) :: ((Zpos (XI (XO (XI (XO (XO (XO XH))))))) :: [])))), (Zpos
    (XI (XI (XI (XI (XO (XO (XO XH))))))))) :: ((((Zpos (XO (XO (XI (XO (XI
    (XO XH))))))) :: ((Zpos (XO (XI (XO (XO (XI (XO XH))))))) :: ((Zpos (XI
    (XI (XI (XI (XO (XO XH))))))) :: ((Zpos (XO (XI (XI (XI (XO (XO
    XH))))))) :: [])))), (Zpos (XO (XO (XO (XO (XI (XO (XO
    XH))))))))) :: ((((Zpos (XO (XO (XI (XO (XI (XO XH))))))) :: ((Zpos (XO
    (XI (XO (XO (XI (XO XH))))))) :: ((Zpos (XI (XI (XI (XI (XO (XO
    XH))))))) :: ((Zpos (XO (XI (XI (XO (XO (XO XH))))))) :: ((Zpos (XO (XI
    (XI (XO (XO (XO XH))))))) :: []))))), (Zpos (XI (XO (XO (XO (XI (XO (XO
    XH))))))))) :: ((((Zpos (XO (XO (XI (XO (XO (XO XH))))))) :: ((Zpos (XI
    (XO (XI (XO (XO (XO XH))))))) :: ((Zpos (XO (XI (XI (XO (XO (XO
    XH))))))) :: ((Zpos (XI (XI (XO (XO (XI (XO XH))))))) :: ((Zpos (XO (XO
    (XI (XO (XI (XO XH))))))) :: ((Zpos (XO (XI (XO (XO (XI (XO
    XH))))))) :: [])))))), (Zpos (XO (XI (XO (XO (XI (XO (XO
    XH))))))))) :: ((((Zpos (XO (XO (XI (XO (XO (XO XH))))))) :: ((Zpos (XI
    (XO (XI (XO (XO (XO XH))))))) :: ((Zpos (XO (XI (XI (XO (XO (XO
    XH))))))) :: ((Zpos (XI (XO (XO (XI (XO (XO XH))))))) :: ((Zpos (XO (XI
    (XI (XI (XO (XO XH))))))) :: ((Zpos (XO (XO (XI (XO (XI (XO
    XH))))))) :: [])))))), (Zpos (XI (XI (XO (XO (XI (XO (XO
    XH))))))))) :: ((((Zpos (XO (XO (XI (XO (XO (XO XH))))))) :: ((Zpos (XI
    (XO (XI (XO (XO (XO XH))))))) :: ((Zpos (XO (XI (XI (XO (XO (XO
    XH))))))) :: ((Zpos (XI (XI (XO (XO (XI (XO XH))))))) :: ((Zpos (XO (XI
    (XI (XI (XO (XO XH))))))) :: ((Zpos (XI (XI (XI (XO (XO (XO
    XH))))))) :: [])))))), (Zpos (XO (XO (XI (XO (XI (XO (XO
    XH))))))))) :: ((((Zpos (XI (XI (XI (XI (XO (XO XH))))))) :: ((Zpos (XO
    (XI (XI (XI (XO (XO XH))))))) :: [])), (Zpos (XO (XI (XI (XO (XI (XO (XO
    XH))))))))) :: ((((Zpos (XO (XO (XI (XO (XI (XO XH))))))) :: ((Zpos (XI
    (XO (XI (XO (XI (XO XH))))))) :: ((Zpos (XO (XI (XI (XI (XO (XO
    XH))))))) :: ((Zpos (XI (XO (XI (XO (XO (XO XH))))))) :: [])))), (Zpos
    (XI (XI (XI (XO (XI (XO (XO XH))))))))) :: ((((Zpos (XI (XO (XI (XO (XO
    (XO XH))))))) :: ((Zpos (XO (XI (XO (XO (XI (XO XH))))))) :: ((Zpos (XO
    (XI (XO (XO (XI (XO XH))))))) :: ((Zpos (XI (XI (XI (XI (XO (XO
    XH))))))) :: ((Zpos (XO (XI (XO (XO (XI (XO XH))))))) :: []))))), (Zpos
    (XO (XO (XO (XI (XI (XO (XO XH))))))))) :: ((((Zpos (XO (XI (XO (XO (XI
    (XO XH))))))) :: ((Zpos (XI (XO (XI (XO (XO (XO XH))))))) :: ((Zpos (XI
    (XI (XO (XO (XI (XO XH))))))) :: ((Zpos (XI (XO (XI (XO (XI (XO
    XH))))))) :: ((Zpos (XI (XO (XI (XI (XO (XO XH))))))) :: ((Zpos (XI (XO
    (XI (XO (XO (XO XH))))))) :: [])))))), (Zpos (XI (XO (XO (XI (XI (XO (XO
    XH))))))))) :: ((((Zpos (XI (XO (XO (XO (XO (XO XH))))))) :: ((Zpos (XI
    (XO (XI (XO (XI (XO XH))))))) :: ((Zpos (XO (XO (XI (XO (XI (XO
    XH))))))) :: ((Zpos (XI (XI (XI (XI (XO (XO XH))))))) :: [])))), (Zpos
    (XO (XI (XO (XI (XI (XO (XO XH))))))))) :: ((((Zpos (XO (XO (XI (XO (XO
    (XO XH))))))) :: ((Zpos (XI (XO (XI (XO (XO (XO XH))))))) :: ((Zpos (XO
    (XO (XI (XI (XO (XO XH))))))) :: ((Zpos (XI (XO (XI (XO (XO (XO
    XH))))))) :: ((Zpos (XO (XO (XI (XO (XI (XO XH))))))) :: ((Zpos (XI (XO
    (XI (XO (XO (XO XH))))))) :: [])))))), (Zpos (XI (XI (XO (XI (XI (XO (XO
    XH))))))))) :: ((((Zpos (XO (XO (XI (XI (XO (XO XH))))))) :: ((Zpos (XI
    (XI (XI (XI (XO (XO XH))))))) :: ((Zpos (XI (XI (XO (XO (XO (XO
    XH))))))) :: ((Zpos (XI (XO (XO (XO (XO (XO XH))))))) :: ((Zpos (XO (XO
    (XI (XO (XI (XO XH))))))) :: ((Zpos (XI (XO (XI (XO (XO (XO
    XH))))))) :: [])))))), (Zpos (XO (XO (XI (XI (XI (XO (XO
    XH))))))))) :: ((((Zpos (XI (XI (XO (XO (XO (XO XH))))))) :: ((Zpos (XO
    (XO (XI (XI (XO (XO XH))))))) :: ((Zpos (XI (XI (XO (XO (XI (XO
    XH))))))) :: []))), (Zpos (XI (XO (XI (XI (XI (XO (XO
    XH))))))))) :: ((((Zpos (XI (XI (XO (XO (XO (XO XH))))))) :: ((Zpos (XI
    (XI (XI (XI (XO (XO XH))))))) :: ((Zpos (XO (XI (XI (XI (XO (XO
    XH))))))) :: ((Zpos (XI (XI (XO (XO (XI (XO XH))))))) :: ((Zpos (XI (XI
    (XI (XI (XO (XO XH))))))) :: ((Zpos (XO (XO (XI (XI (XO (XO
    XH))))))) :: ((Zpos (XI (XO (XI (XO (XO (XO XH))))))) :: []))))))), (Zpos
    (XO (XI (XI (XI (XI (XO (XO XH))))))))) :: ((((Zpos (XO (XO (XO (XO (XI
    (XO XH))))))) :: ((Zpos (XI (XI (XO (XO (XI (XO XH))))))) :: ((Zpos (XI
    (XO (XI (XO (XO (XO XH))))))) :: ((Zpos (XO (XO (XI (XO (XI (XO
    XH))))))) :: [])))), (Zpos (XI (XI (XI (XI (XI (XO (XO
    XH))))))))) :: ((((Zpos (XI (XO (XI (XI (XO (XO XH))))))) :: ((Zpos (XI
    (XI (XI (XI (XO (XO XH))))))) :: ((Zpos (XO (XO (XI (XO (XI (XO
    XH))))))) :: ((Zpos (XI (XI (XI (XI (XO (XO XH))))))) :: ((Zpos (XO (XI
    (XO (XO (XI (XO XH))))))) :: []))))), (Zpos (XO (XO (XO (XO (XO (XI (XO
    XH))))))))) :: ((((Zpos (XI (XI (XO (XO (XI (XO XH))))))) :: ((Zpos (XI
    (XI (XO (XI (XO (XO XH))))))) :: ((Zpos (XI (XO (XO (XI (XO (XO
    XH))))))) :: ((Zpos (XO (XO (XO (XO (XI (XO XH))))))) :: ((Zpos (XO (XI
    (XI (XO (XO (XO XH))))))) :: []))))), (Zpos (XI (XO (XO (XO (XO (XI (XO
    XH))))))))) :: ((((Zpos (XI (XO (XI (XO (XO (XO XH))))))) :: ((Zpos (XO
    (XO (XO (XI (XI (XO XH))))))) :: ((Zpos (XI (XO (XI (XO (XO (XO
    XH))))))) :: ((Zpos (XI (XI (XO (XO (XO (XO XH))))))) :: [])))), (Zpos
    (XO (XI (XO (XO (XO (XI (XO XH))))))))) :: ((((Zpos (XO (XI (XO (XO (XO
    (XO XH))))))) :: ((Zpos (XI (XO (XI (XO (XO (XO XH))))))) :: ((Zpos (XI
    (XO (XI (XO (XO (XO XH))))))) :: ((Zpos (XO (XO (XO (XO (XI (XO
    XH))))))) :: [])))), (Zpos (XI (XI (XO (XO (XO (XI (XO
    XH))))))))) :: ((((Zpos (XI (XI (XO (XO (XO (XO XH))))))) :: ((Zpos (XI
    (XI (XI (XI (XO (XO XH))))))) :: ((Zpos (XO (XO (XI (XI (XO (XO
    XH))))))) :: ((Zpos (XI (XI (XI (XI (XO (XO XH))))))) :: ((Zpos (XO (XI
    (XO (XO (XI (XO XH))))))) :: []))))), (Zpos (XO (XO (XI (XO (XO (XI (XO
    XH))))))))) :: ((((Zpos (XO (XO (XI (XI (XO (XO XH))))))) :: ((Zpos (XI
    (XO (XO (XI (XO (XO XH))))))) :: ((Zpos (XO (XI (XI (XI (XO (XO
    XH))))))) :: ((Zpos (XI (XO (XI (XO (XO (XO XH))))))) :: [])))), (Zpos
    (XI (XO (XI (XO (XO (XI (XO XH))))))))) :: ((((Zpos (XO (XI (XO (XO (XO
    (XO XH))))))) :: ((Zpos (XI (XI (XI (XI (XO (XO XH))))))) :: ((Zpos (XO
    (XO (XO (XI (XI (XO XH))))))) :: []))), (Zpos (XO (XI (XI (XO (XO (XI (XO
    XH))))))))) :: ((((Zpos (XI (XO (XO (XO (XO (XO XH))))))) :: ((Zpos (XO
    (XO (XI (XO (XI (XO XH))))))) :: ((Zpos (XO (XO (XI (XO (XI (XO
    XH))))))) :: ((Zpos (XO (XI (XO (XO (XI (XO XH))))))) :: ((Zpos (XO (XI
    (XO (XO (XO (XO XH))))))) :: []))))), (Zpos (XO (XO (XO (XI (XO (XI (XO
    XH))))))))) :: ((((Zpos (XO (XO (XI (XO (XO (XO XH))))))) :: ((Zpos (XI
    (XO (XI (XO (XO (XO XH))))))) :: ((Zpos (XO (XI (XI (XO (XO (XO
    XH))))))) :: []))), (Zpos (XI (XO (XO (XI (XO (XI (XO
    XH))))))))) :: ((((Zpos (XO (XO (XO (XO (XI (XO XH))))))) :: ((Zpos (XI
    (XI (XI (XI (XO (XO XH))))))) :: ((Zpos (XI (XI (XO (XI (XO (XO
    XH))))))) :: ((Zpos (XI (XO (XI (XO (XO (XO XH))))))) :: [])))), (Zpos
    (XO (XI (XO (XI (XO (XI (XO XH))))))))) :: ((((Zpos (XO (XO (XO (XO (XI
    (XO XH))))))) :: ((Zpos (XO (XI (XO (XO (XI (XO XH))))))) :: ((Zpos (XI
    (XO (XO (XI (XO (XO XH))))))) :: ((Zpos (XO (XI (XI (XI (XO (XO
    XH))))))) :: ((Zpos (XO (XO (XI (XO (XI (XO XH))))))) :: []))))), (Zpos
    (XI (XI (XO (XI (XO (XI (XO XH))))))))) :: ((((Zpos (XI (XI (XO (XO (XO
    (XO XH))))))) :: ((Zpos (XI (XI (XI (XI (XO (XO XH))))))) :: ((Zpos (XO
    (XI (XI (XI (XO (XO XH))))))) :: ((Zpos (XO (XO (XI (XO (XI (XO
    XH))))))) :: [])))), (Zpos (XO (XO (XI (XI (XO (XI (XO
    XH))))))))) :: ((((Zpos (XO (XO (XI (XI (XO (XO XH))))))) :: ((Zpos (XI
    (XO (XO (XI (XO (XO XH))))))) :: ((Zpos (XI (XI (XO (XO (XI (XO
    XH))))))) :: ((Zpos (XO (XO (XI (XO (XI (XO XH))))))) :: [])))), (Zpos
    (XI (XO (XI (XI (XO (XI (XO XH))))))))) :: ((((Zpos (XI (XI (XO (XO (XO
    (XO XH))))))) :: ((Zpos (XO (XO (XI (XI (XO (XO XH))))))) :: ((Zpos (XI
    (XO (XI (XO (XO (XO XH))))))) :: ((Zpos (XI (XO (XO (XO (XO (XO
    XH))))))) :: ((Zpos (XO (XI (XO (XO (XI (XO XH))))))) :: []))))), (Zpos
    (XO (XI (XI (XI (XO (XI (XO XH))))))))) :: ((((Zpos (XO (XO (XI (XO (XO
    (XO XH))))))) :: ((Zpos (XI (XI (XI (XI (XO (XO XH))))))) :: ((Zpos (XI
    (XI (XO (XO (XI (XO XH))))))) :: []))), (Zpos (XI (XI (XI (XI (XO (XI (XO
    XH))))))))) :: ((((Zpos (XO (XI (XI (XI (XO (XO XH))))))) :: ((Zpos (XI
    (XO (XI (XO (XO (XO XH))))))) :: ((Zpos (XI (XI (XI (XO (XI (XO
    XH))))))) :: []))), (Zpos (XI (XO (XO (XO (XI (XI (XO
    XH))))))))) :: ((((Zpos (XI (XI (XO (XO (XI (XO XH))))))) :: ((Zpos (XI
    (XO (XO (XO (XO (XO XH))))))) :: ((Zpos (XO (XI (XI (XO (XI (XO
    XH))))))) :: ((Zpos (XI (XO (XI (XO (XO (XO XH))))))) :: [])))), (Zpos
    (XO (XI (XO (XO (XI (XI (XO XH))))))))) :: ((((Zpos (XO (XO (XI (XI (XO
    (XO XH))))))) :: ((Zpos (XI (XI (XI (XI (XO (XO XH))))))) :: ((Zpos (XI
    (XO (XO (XO (XO (XO XH))))))) :: ((Zpos (XO (XO (XI (XO (XO (XO
    XH))))))) :: [])))), (Zpos (XI (XI (XO (XO (XI (XI (XO
    XH))))))))) :: ((((Zpos (XI (XO (XI (XI (XO (XO XH))))))) :: ((Zpos (XI
    (XO (XI (XO (XO (XO XH))))))) :: ((Zpos (XO (XI (XO (XO (XI (XO
    XH))))))) :: ((Zpos (XI (XI (XI (XO (XO (XO XH))))))) :: ((Zpos (XI (XO
    (XI (XO (XO (XO XH))))))) :: []))))), (Zpos (XO (XO (XI (XO (XI (XI (XO
    XH))))))))) :: ((((Zpos (XI (XI (XI (XI (XO (XO XH))))))) :: ((Zpos (XO
    (XO (XO (XO (XI (XO XH))))))) :: ((Zpos (XI (XO (XI (XO (XO (XO
    XH))))))) :: ((Zpos (XO (XI (XI (XI (XO (XO XH))))))) :: [])))), (Zpos
    (XI (XO (XI (XO (XI (XI (XO XH))))))))) :: ((((Zpos (XI (XI (XO (XO (XO
    (XO XH))))))) :: ((Zpos (XO (XO (XI (XI (XO (XO XH))))))) :: ((Zpos (XI
    (XI (XI (XI (XO (XO XH))))))) :: ((Zpos (XI (XI (XO (XO (XI (XO
    XH))))))) :: ((Zpos (XI (XO (XI (XO (XO (XO XH))))))) :: []))))), (Zpos
    (XO (XI (XI (XO (XI (XI (XO XH))))))))) :: ((((Zpos (XI (XO (XO (XI (XO
    (XO XH))))))) :: ((Zpos (XO (XI (XI (XI (XO (XO XH))))))) :: ((Zpos (XO
    (XO (XO (XO (XI (XO XH))))))) :: ((Zpos (XI (XO (XI (XO (XO (XO
    XH))))))) :: ((Zpos (XO (XI (XI (XI (XO (XO XH))))))) :: []))))), (Zpos
    (XI (XI (XI (XO (XI (XI (XO XH))))))))) :: ((((Zpos (XO (XO (XO (XO (XI
    (XO XH))))))) :: ((Zpos (XI (XO (XI (XO (XO (XO XH))))))) :: ((Zpos (XO
    (XI (XI (XI (XO (XO XH))))))) :: []))), (Zpos (XO (XO (XO (XI (XI (XI (XO
    XH))))))))) :: ((((Zpos (XO (XO (XO (XO (XI (XO XH))))))) :: ((Zpos (XO
    (XO (XI (XI (XO (XO XH))))))) :: ((Zpos (XI (XO (XO (XO (XO (XO
    XH))))))) :: ((Zpos (XI (XO (XO (XI (XI (XO XH))))))) :: [])))), (Zpos
    (XI (XO (XO (XI (XI (XI (XO XH))))))))) :: ((((Zpos (XO (XO (XI (XO (XI
    (XO XH))))))) :: ((Zpos (XI (XO (XO (XO (XO (XO XH))))))) :: ((Zpos (XO
    (XI (XO (XO (XO (XO XH))))))) :: []))), (Zpos (XO (XI (XO (XI (XI (XI (XO
    XH))))))))) :: ((((Zpos (XO (XO (XI (XO (XI (XO XH))))))) :: ((Zpos (XI
    (XI (XI (XI (XO (XO XH))))))) :: [])), (Zpos (XI (XI (XO (XI (XI (XI (XO
    XH))))))))) :: ((((Zpos (XI (XI (XO (XO (XI (XO XH))))))) :: ((Zpos (XI
    (XO (XI (XO (XI (XO XH))))))) :: ((Zpos (XO (XI (XO (XO (XO (XO
    XH))))))) :: []))), (Zpos (XO (XO (XI (XI (XI (XI (XO
    XH))))))))) :: ((((Zpos (XO (XI (XI (XO (XO (XO XH))))))) :: ((Zpos (XO
    (XI (XI (XI (XO (XO XH))))))) :: ((Zpos (XI (XI (XO (XO (XO (XO
    XH))))))) :: []))), (Zpos (XI (XO (XI (XI (XI (XI (XO
    XH))))))))) :: ((((Zpos (XI (XI (XO (XO (XI (XO XH))))))) :: ((Zpos (XO
    (XO (XO (XO (XI (XO XH))))))) :: ((Zpos (XI (XI (XO (XO (XO (XO
    XH))))))) :: []))), (Zpos (XO (XI (XI (XI (XI (XI (XO
    XH))))))))) :: ((((Zpos (XI (XO (XI (XO (XI (XO XH))))))) :: ((Zpos (XI
    (XI (XO (XO (XI (XO XH))))))) :: ((Zpos (XI (XO (XO (XI (XO (XO
    XH))))))) :: ((Zpos (XO (XI (XI (XI (XO (XO XH))))))) :: ((Zpos (XI (XI
    (XI (XO (XO (XO XH))))))) :: []))))), (Zpos (XI (XI (XI (XI (XI (XI (XO
    XH))))))))) :: ((((Zpos (XI (XO (XI (XO (XI (XO XH))))))) :: ((Zpos (XI
    (XI (XO (XO (XI (XO XH))))))) :: ((Zpos (XO (XI (XO (XO (XI (XO
    XH))))))) :: []))), (Zpos (XO (XO (XO (XO (XO (XO (XI
    XH))))))))) :: ((((Zpos (XI (XO (XI (XO (XO (XO XH))))))) :: ((Zpos (XO
    (XI (XO (XO (XI (XO XH))))))) :: ((Zpos (XO (XO (XI (XI (XO (XO
    XH))))))) :: []))), (Zpos (XI (XO (XO (XO (XO (XO (XI
    XH))))))))) :: ((((Zpos (XI (XO (XI (XO (XO (XO XH))))))) :: ((Zpos (XO
    (XI (XO (XO (XI (XO XH))))))) :: ((Zpos (XO (XI (XO (XO (XI (XO
    XH))))))) :: []))), (Zpos (XO (XI (XO (XO (XO (XO (XI
    XH))))))))) :: ((((Zpos (XI (XI (XI (XI (XO (XO XH))))))) :: ((Zpos (XO
    (XI (XI (XO (XO (XO XH))))))) :: ((Zpos (XO (XI (XI (XO (XO (XO
    XH))))))) :: []))), (Zpos (XI (XI (XO (XO (XO (XO (XI
    XH))))))))) :: ((((Zpos (XO (XO (XI (XO (XI (XO XH))))))) :: ((Zpos (XO
    (XO (XO (XI (XO (XO XH))))))) :: ((Zpos (XI (XO (XI (XO (XO (XO
    XH))))))) :: ((Zpos (XO (XI (XI (XI (XO (XO XH))))))) :: [])))), (Zpos
    (XO (XO (XI (XO (XO (XO (XI XH))))))))) :: ((((Zpos (XO (XI (XI (XI (XO
    (XO XH))))))) :: ((Zpos (XI (XI (XI (XI (XO (XO XH))))))) :: ((Zpos (XO
    (XO (XI (XO (XI (XO XH))))))) :: []))), (Zpos (XI (XO (XI (XO (XO (XO (XI
    XH))))))))) :: ((((Zpos (XI (XI (XO (XO (XI (XO XH))))))) :: ((Zpos (XO
    (XO (XI (XO (XI (XO XH))))))) :: ((Zpos (XI (XO (XI (XO (XO (XO
    XH))))))) :: ((Zpos (XO (XO (XO (XO (XI (XO XH))))))) :: [])))), (Zpos
    (XO (XI (XI (XO (XO (XO (XI XH))))))))) :: ((((Zpos (XI (XI (XO (XI (XO
    XH)))))) :: []), (Zpos (XI (XI (XI (XO (XO (XO (XI
    XH))))))))) :: ((((Zpos (XI (XO (XI (XI (XO XH)))))) :: []), (Zpos (XO
    (XO (XO (XI (XO (XO (XI XH))))))))) :: ((((Zpos (XO (XI (XO (XI (XO
    XH)))))) :: []), (Zpos (XI (XO (XO (XI (XO (XO (XI
    XH))))))))) :: ((((Zpos (XI (XI (XI (XI (XO XH)))))) :: []), (Zpos (XO
    (XI (XO (XI (XO (XO (XI XH))))))))) :: ((((Zpos (XO (XI (XI (XI (XI (XO
    XH))))))) :: []), (Zpos (XI (XI (XO (XI (XO (XO (XI
    XH))))))))) :: ((((Zpos (XI (XO (XO (XO (XO (XO XH))))))) :: ((Zpos (XO
    (XI (XI (XI (XO (XO XH))))))) :: ((Zpos (XO (XO (XI (XO (XO (XO
    XH))))))) :: []))), (Zpos (XO (XO (XI (XI (XO (XO (XI
    XH))))))))) :: ((((Zpos (XI (XI (XI (XI (XO (XO XH))))))) :: ((Zpos (XO
    (XI (XO (XO (XI (XO XH))))))) :: [])), (Zpos (XI (XO (XI (XI (XO (XO (XI
    XH))))))))) :: ((((Zpos (XO (XO (XO (XI (XI (XO XH))))))) :: ((Zpos (XI
    (XI (XI (XI (XO (XO XH))))))) :: ((Zpos (XO (XI (XO (XO (XI (XO
    XH))))))) :: []))), (Zpos (XO (XI (XI (XI (XO (XO (XI
    XH))))))))) :: ((((Zpos (XI (XO (XI (XO (XO (XO XH))))))) :: ((Zpos (XI
    (XO (XO (XO (XI (XO XH))))))) :: ((Zpos (XO (XI (XI (XO (XI (XO
    XH))))))) :: []))), (Zpos (XI (XI (XI (XI (XO (XO (XI
    XH))))))))) :: ((((Zpos (XI (XO (XO (XI (XO (XO XH))))))) :: ((Zpos (XI
    (XO (XI (XI (XO (XO XH))))))) :: ((Zpos (XO (XO (XO (XO (XI (XO
    XH))))))) :: []))), (Zpos (XO (XO (XO (XO (XI (XO (XI
    XH))))))))) :: ((((Zpos (XI (XO (XI (XI (XO (XO XH))))))) :: ((Zpos (XI
    (XI (XI (XI (XO (XO XH))))))) :: ((Zpos (XO (XO (XI (XO (XO (XO
    XH))))))) :: []))), (Zpos (XI (XO (XO (XO (XI (XO (XI
    XH))))))))) :: ((((Zpos (XO (XI (XI (XI (XI XH)))))) :: []), (Zpos (XI
    (XI (XO (XO (XI (XO (XI XH))))))))) :: ((((Zpos (XI (XO (XI (XI (XI
    XH)))))) :: []), (Zpos (XO (XO (XI (XO (XI (XO (XI
    XH))))))))) :: ((((Zpos (XO (XO (XI (XI (XI XH)))))) :: []), (Zpos (XI
    (XO (XI (XO (XI (XO (XI XH))))))))) :: ((((Zpos (XO (XO (XI (XO (XO (XO
    XH))))))) :: ((Zpos (XI (XI (XO (XO (XI (XO XH))))))) :: ((Zpos (XI (XI
    (XO (XI (XO (XO XH))))))) :: ((Zpos (XI (XO (XO (XI (XO (XO
    XH))))))) :: ((Zpos (XO (XI (XI (XI (XO (XO XH))))))) :: []))))), (Zpos
    (XO (XI (XI (XO (XI (XO (XI XH))))))))) :: ((((Zpos (XO (XO (XI (XO (XO
    (XO XH))))))) :: ((Zpos (XI (XI (XO (XO (XI (XO XH))))))) :: ((Zpos (XI
    (XI (XO (XI (XO (XO XH))))))) :: ((Zpos (XI (XI (XI (XI (XO (XO
    XH))))))) :: ((Zpos (XO (XO (XI (XO (XO XH)))))) :: []))))), (Zpos (XI
    (XI (XI (XO (XI (XO (XI XH))))))))) :: ((((Zpos (XI (XI (XO (XI (XO (XO
    XH))))))) :: ((Zpos (XI (XO (XO (XI (XO (XO XH))))))) :: ((Zpos (XO (XO
    (XI (XI (XO (XO XH))))))) :: ((Zpos (XO (XO (XI (XI (XO (XO
    XH))))))) :: [])))), (Zpos (XO (XO (XO (XI (XI (XO (XI
    XH))))))))) :: ((((Zpos (XO (XI (XI (XI (XO (XO XH))))))) :: ((Zpos (XI
    (XO (XO (XO (XO (XO XH))))))) :: ((Zpos (XI (XO (XI (XI (XO (XO
    XH))))))) :: ((Zpos (XI (XO (XI (XO (XO (XO XH))))))) :: [])))), (Zpos
    (XI (XO (XO (XI (XI (XO (XI XH))))))))) :: ((((Zpos (XO (XI (XI (XO (XO
    (XO XH))))))) :: ((Zpos (XI (XO (XO (XI (XO (XO XH))))))) :: ((Zpos (XI
    (XO (XI (XO (XO (XO XH))))))) :: ((Zpos (XO (XO (XI (XI (XO (XO
    XH))))))) :: ((Zpos (XO (XO (XI (XO (XO (XO XH))))))) :: []))))), (Zpos
    (XO (XI (XO (XI (XI (XO (XI XH))))))))) :: ((((Zpos (XO (XO (XI (XI (XO
    (XO XH))))))) :: ((Zpos (XI (XI (XO (XO (XI (XO XH))))))) :: ((Zpos (XI
    (XO (XI (XO (XO (XO XH))))))) :: ((Zpos (XO (XO (XI (XO (XI (XO
    XH))))))) :: [])))), (Zpos (XI (XI (XO (XI (XI (XO (XI
    XH))))))))) :: ((((Zpos (XO (XI (XO (XO (XI (XO XH))))))) :: ((Zpos (XI
    (XI (XO (XO (XI (XO XH))))))) :: ((Zpos (XI (XO (XI (XO (XO (XO
    XH))))))) :: ((Zpos (XO (XO (XI (XO (XI (XO XH))))))) :: [])))), (Zpos
    (XO (XO (XI (XI (XI (XO (XI XH))))))))) :: ((((Zpos (XO (XO (XO (XO (XI
    (XO XH))))))) :: ((Zpos (XI (XO (XI (XO (XI (XO XH))))))) :: ((Zpos (XO
    (XO (XI (XO (XI (XO XH))))))) :: []))), (Zpos (XI (XO (XI (XI (XI (XO (XI
    XH))))))))) :: ((((Zpos (XI (XI (XI (XO (XO (XO XH))))))) :: ((Zpos (XI
    (XO (XI (XO (XO (XO XH))))))) :: ((Zpos (XO (XO (XI (XO (XI (XO
    XH))))))) :: []))), (Zpos (XO (XI (XI (XI (XI (XO (XI
    XH))))))))) :: ((((Zpos (XO (XI (XI (XO (XI (XO XH))))))) :: ((Zpos (XI
    (XO (XI (XO (XO (XO XH))))))) :: ((Zpos (XO (XI (XO (XO (XI (XO
    XH))))))) :: ((Zpos (XI (XO (XO (XI (XO (XO XH))))))) :: ((Zpos (XO (XI
    (XI (XO (XO (XO XH))))))) :: ((Zpos (XI (XO (XO (XI (XI (XO
    XH))))))) :: [])))))), (Zpos (XI (XI (XI (XI (XI (XO (XI
    XH))))))))) :: ((((Zpos (XO (XO (XI (XO (XO (XO XH))))))) :: ((Zpos (XI
    (XO (XI (XO (XO (XO XH))))))) :: ((Zpos (XO (XI (XI (XO (XI (XO
    XH))))))) :: ((Zpos (XI (XO (XO (XI (XO (XO XH))))))) :: ((Zpos (XI (XI
    (XO (XO (XO (XO XH))))))) :: ((Zpos (XI (XO (XI (XO (XO (XO
    XH))))))) :: [])))))), (Zpos (XO (XO (XO (XO (XO (XI (XI
    XH))))))))) :: ((((Zpos (XO (XO (XI (XO (XO (XO XH))))))) :: ((Zpos (XI
    (XO (XO (XI (XO (XO XH))))))) :: ((Zpos (XO (XI (XO (XO (XI (XO
    XH))))))) :: []))), (Zpos (XI (XO (XO (XO (XO (XI (XI
    XH))))))))) :: ((((Zpos (XO (XI (XI (XO (XO (XO XH))))))) :: ((Zpos (XI
    (XO (XO (XI (XO (XO XH))))))) :: ((Zpos (XO (XO (XI (XI (XO (XO
    XH))))))) :: ((Zpos (XI (XO (XI (XO (XO (XO XH))))))) :: ((Zpos (XI (XI
    (XO (XO (XI (XO XH))))))) :: []))))), (Zpos (XO (XI (XO (XO (XO (XI (XI
    XH))))))))) :: ((((Zpos (XI (XI (XI (XO (XI (XO XH))))))) :: ((Zpos (XO
    (XI (XO (XO (XI (XO XH))))))) :: ((Zpos (XI (XO (XO (XI (XO (XO
    XH))))))) :: ((Zpos (XO (XO (XI (XO (XI (XO XH))))))) :: ((Zpos (XI (XO
    (XI (XO (XO (XO XH))))))) :: []))))), (Zpos (XI (XI (XO (XO (XO (XI (XI
    XH))))))))) :: ((((Zpos (XI (XO (XI (XO (XI (XO XH))))))) :: ((Zpos (XO
    (XI (XI (XI (XO (XO XH))))))) :: ((Zpos (XO (XO (XI (XI (XO (XO
    XH))))))) :: ((Zpos (XI (XI (XI (XI (XO (XO XH))))))) :: ((Zpos (XI (XO
    (XO (XO (XO (XO XH))))))) :: ((Zpos (XO (XO (XI (XO (XO (XO
    XH))))))) :: [])))))), (Zpos (XO (XO (XI (XO (XO (XI (XI
    XH))))))))) :: ((((Zpos (XO (XI (XO (XO (XO (XO XH))))))) :: ((Zpos (XI
    (XO (XO (XO (XO (XO XH))))))) :: ((Zpos (XI (XI (XO (XO (XO (XO
    XH))))))) :: ((Zpos (XI (XI (XO (XI (XO (XO XH))))))) :: ((Zpos (XI (XO
    (XI (XO (XI (XO XH))))))) :: ((Zpos (XO (XO (XO (XO (XI (XO
    XH))))))) :: [])))))), (Zpos (XI (XO (XI (XO (XO (XI (XI
    XH))))))))) :: ((((Zpos (XI (XI (XO (XO (XO (XO XH))))))) :: ((Zpos (XI
    (XI (XI (XI (XO (XO XH))))))) :: ((Zpos (XO (XO (XO (XO (XI (XO
    XH))))))) :: ((Zpos (XI (XO (XO (XI (XI (XO XH))))))) :: [])))), (Zpos
    (XO (XI (XI (XO (XO (XI (XI XH))))))))) :: ((((Zpos (XI (XI (XO (XO (XO
    (XO XH))))))) :: ((Zpos (XI (XO (XO (XI (XO (XO XH))))))) :: ((Zpos (XO
    (XI (XO (XO (XI (XO XH))))))) :: ((Zpos (XI (XI (XO (XO (XO (XO
    XH))))))) :: ((Zpos (XO (XO (XI (XI (XO (XO XH))))))) :: ((Zpos (XI (XO
    (XI (XO (XO (XO XH))))))) :: [])))))), (Zpos (XI (XI (XI (XO (XO (XI (XI
    XH))))))))) :: ((((Zpos (XO (XO (XO (XO (XI (XO XH))))))) :: ((Zpos (XI
    (XO (XO (XO (XO (XO XH))))))) :: ((Zpos (XI (XO (XO (XI (XO (XO
    XH))))))) :: ((Zpos (XO (XI (XI (XI (XO (XO XH))))))) :: ((Zpos (XO (XO
    (XI (XO (XI (XO XH))))))) :: []))))), (Zpos (XO (XO (XO (XI (XO (XI (XI
    XH))))))))) :: ((((Zpos (XO (XO (XI (XO (XO (XO XH))))))) :: ((Zpos (XO
    (XI (XO (XO (XI (XO XH))))))) :: ((Zpos (XI (XO (XO (XO (XO (XO
    XH))))))) :: ((Zpos (XI (XI (XI (XO (XI (XO XH))))))) :: [])))), (Zpos
    (XI (XO (XO (XI (XO (XI (XI XH))))))))) :: ((((Zpos (XO (XI (XO (XO (XI
    (XO XH))))))) :: ((Zpos (XI (XO (XI (XO (XO (XO XH))))))) :: ((Zpos (XO
    (XI (XI (XI (XO (XO XH))))))) :: ((Zpos (XI (XO (XI (XO (XI (XO
    XH))))))) :: ((Zpos (XI (XO (XI (XI (XO (XO XH))))))) :: []))))), (Zpos
    (XO (XI (XO (XI (XO (XI (XI XH))))))))) :: ((((Zpos (XI (XI (XO (XO (XI
    (XO XH))))))) :: ((Zpos (XI (XI (XI (XO (XI (XO XH))))))) :: ((Zpos (XI
    (XO (XO (XO (XO (XO XH))))))) :: ((Zpos (XO (XO (XO (XO (XI (XO
    XH))))))) :: [])))), (Zpos (XI (XI (XO (XI (XO (XI (XI
    XH))))))))) :: ((((Zpos (XI (XI (XO (XO (XI (XO XH))))))) :: ((Zpos (XI
    (XI (XI (XO (XO (XO XH))))))) :: ((Zpos (XO (XI (XI (XI (XO (XO
    XH))))))) :: []))), (Zpos (XO (XO (XO (XO (XO (XO (XO (XI (XI (XI (XI (XI
    (XI (XI (XI XH))))))))))))))))) :: ((((Zpos (XI (XO (XO (XI (XO (XO
    XH))))))) :: ((Zpos (XO (XI (XI (XI (XO (XO XH))))))) :: ((Zpos (XO (XO
    (XI (XO (XI (XO XH))))))) :: []))), (Zpos (XI (XO (XO (XO (XO (XO (XO (XI
    (XI (XI (XI (XI (XI (XI (XI XH))))))))))))))))) :: ((((Zpos (XI (XO (XO
    (XO (XO (XO XH))))))) :: ((Zpos (XO (XO (XO (XO (XI (XO
    XH))))))) :: ((Zpos (XI (XI (XO (XO (XI (XO XH))))))) :: []))), (Zpos (XO
    (XI (XO (XO (XO (XO (XO (XI (XI (XI (XI (XI (XI (XI (XI
    XH))))))))))))))))) :: ((((Zpos (XO (XI (XI (XO (XO (XO
    XH))))))) :: ((Zpos (XO (XI (XO (XO (XI (XO XH))))))) :: ((Zpos (XI (XO
    (XI (XO (XO (XO XH))))))) :: []))), (Zpos (XI (XI (XO (XO (XO (XO (XO (XI
    (XI (XI (XI (XI (XI (XI (XI XH))))))))))))))))) :: ((((Zpos (XI (XI (XO
    (XO (XI (XO XH))))))) :: ((Zpos (XI (XO (XO (XO (XI (XO
    XH))))))) :: ((Zpos (XO (XO (XI (XI (XO (XO XH))))))) :: []))), (Zpos (XO
    (XO (XI (XO (XO (XO (XO (XI (XI (XI (XI (XI (XI (XI (XI
    XH))))))))))))))))) :: ((((Zpos (XO (XO (XI (XI (XO (XO
    XH))))))) :: ((Zpos (XI (XI (XI (XI (XO (XO XH))))))) :: ((Zpos (XI (XI
    (XI (XO (XO (XO XH))))))) :: []))), (Zpos (XI (XO (XI (XO (XO (XO (XO (XI
    (XI (XI (XI (XI (XI (XI (XI XH))))))))))))))))) :: ((((Zpos (XI (XO (XI
    (XO (XO (XO XH))))))) :: ((Zpos (XO (XO (XO (XI (XI (XO
    XH))))))) :: ((Zpos (XO (XO (XO (XO (XI (XO XH))))))) :: []))), (Zpos (XO
    (XI (XI (XO (XO (XO (XO (XI (XI (XI (XI (XI (XI (XI (XI
    XH))))))))))))))))) :: ((((Zpos (XI (XI (XO (XO (XO (XO
    XH))))))) :: ((Zpos (XI (XI (XI (XI (XO (XO XH))))))) :: ((Zpos (XI (XI
    (XO (XO (XI (XO XH))))))) :: []))), (Zpos (XI (XI (XI (XO (XO (XO (XO (XI
    (XI (XI (XI (XI (XI (XI (XI XH))))))))))))))))) :: ((((Zpos (XI (XI (XO
    (XO (XI (XO XH))))))) :: ((Zpos (XI (XO (XO (XI (XO (XO
    XH))))))) :: ((Zpos (XO (XI (XI (XI (XO (XO XH))))))) :: []))), (Zpos (XO
    (XO (XO (XI (XO (XO (XO (XI (XI (XI (XI (XI (XI (XI (XI
    XH))))))))))))))))) :: ((((Zpos (XO (XO (XI (XO (XI (XO
    XH))))))) :: ((Zpos (XI (XO (XO (XO (XO (XO XH))))))) :: ((Zpos (XO (XI
    (XI (XI (XO (XO XH))))))) :: []))), (Zpos (XI (XO (XO (XI (XO (XO (XO (XI
    (XI (XI (XI (XI (XI (XI (XI XH))))))))))))))))) :: ((((Zpos (XO (XO (XO
    (XO (XI (XO XH))))))) :: ((Zpos (XI (XO (XI (XO (XO (XO
    XH))))))) :: ((Zpos (XI (XO (XI (XO (XO (XO XH))))))) :: ((Zpos (XI (XI
    (XO (XI (XO (XO XH))))))) :: [])))), (Zpos (XO (XI (XO (XI (XO (XO (XO
    (XI (XI (XI (XI (XI (XI (XI (XI XH))))))))))))))))) :: ((((Zpos (XO (XO
    (XI (XI (XO (XO XH))))))) :: ((Zpos (XI (XO (XI (XO (XO (XO
    XH))))))) :: ((Zpos (XO (XI (XI (XI (XO (XO XH))))))) :: []))), (Zpos (XI
    (XI (XO (XI (XO (XO (XO (XI (XI (XI (XI (XI (XI (XI (XI
    XH))))))))))))))))) :: ((((Zpos (XI (XI (XO (XO (XI (XO
    XH))))))) :: ((Zpos (XO (XO (XI (XO (XI (XO XH))))))) :: ((Zpos (XO (XI
    (XO (XO (XI (XO XH))))))) :: ((Zpos (XO (XO (XI (XO (XO
    XH)))))) :: [])))), (Zpos (XO (XO (XI (XI (XO (XO (XO (XI (XI (XI (XI (XI
    (XI (XI (XI XH))))))))))))))))) :: ((((Zpos (XO (XI (XI (XO (XI (XO
    XH))))))) :: ((Zpos (XI (XO (XO (XO (XO (XO XH))))))) :: ((Zpos (XO (XO
    (XI (XI (XO (XO XH))))))) :: []))), (Zpos (XI (XO (XI (XI (XO (XO (XO (XI
    (XI (XI (XI (XI (XI (XI (XI XH))))))))))))))))) :: ((((Zpos (XI (XO (XO
    (XO (XO (XO XH))))))) :: ((Zpos (XI (XI (XO (XO (XI (XO
    XH))))))) :: ((Zpos (XI (XI (XO (XO (XO (XO XH))))))) :: []))), (Zpos (XO
    (XI (XI (XI (XO (XO (XO (XI (XI (XI (XI (XI (XI (XI (XI
    XH))))))))))))))))) :: ((((Zpos (XI (XI (XO (XO (XO (XO
    XH))))))) :: ((Zpos (XO (XO (XO (XI (XO (XO XH))))))) :: ((Zpos (XO (XI
    (XO (XO (XI (XO XH))))))) :: ((Zpos (XO (XO (XI (XO (XO
    XH)))))) :: [])))), (Zpos (XI (XI (XI (XI (XO (XO (XO (XI (XI (XI (XI (XI
    (XI (XI (XI XH))))))))))))))))) :: ((((Zpos (XI (XO (XI (XO (XO (XO
    XH))))))) :: ((Zpos (XI (XI (XI (XI (XO (XO XH))))))) :: ((Zpos (XO (XI
    (XI (XO (XO (XO XH))))))) :: []))), (Zpos (XO (XO (XO (XO (XI (XO (XO (XI
    (XI (XI (XI (XI (XI (XI (XI XH))))))))))))))))) :: ((((Zpos (XI (XI (XO
    (XO (XO (XO XH))))))) :: ((Zpos (XI (XO (XO (XI (XO (XO
    XH))))))) :: ((Zpos (XO (XI (XI (XI (XO (XO XH))))))) :: ((Zpos (XO (XO
    (XI (XO (XI (XO XH))))))) :: [])))), (Zpos (XI (XO (XO (XO (XI (XO (XO
    (XI (XI (XI (XI (XI (XI (XI (XI XH))))))))))))))))) :: ((((Zpos (XI (XI
    (XO (XO (XO (XO XH))))))) :: ((Zpos (XI (XI (XO (XO (XI (XO
    XH))))))) :: ((Zpos (XO (XI (XI (XI (XO (XO XH))))))) :: ((Zpos (XI (XI
    (XI (XO (XO (XO XH))))))) :: [])))), (Zpos (XO (XI (XO (XO (XI (XO (XO
    (XI (XI (XI (XI (XI (XI (XI (XI XH))))))))))))))))) :: ((((Zpos (XI (XI
    (XO (XO (XO (XO XH))))))) :: ((Zpos (XO (XO (XI (XO (XO (XO
    XH))))))) :: ((Zpos (XO (XI (XO (XO (XO (XO XH))))))) :: ((Zpos (XO (XO
    (XI (XI (XO (XO XH))))))) :: [])))), (Zpos (XI (XI (XO (XO (XI (XO (XO
    (XI (XI (XI (XI (XI (XI (XI (XI XH))))))))))))))))) :: ((((Zpos (XO (XI
    (XI (XO (XO (XO XH))))))) :: ((Zpos (XI (XO (XO (XI (XO (XO
    XH))))))) :: ((Zpos (XO (XO (XO (XI (XI (XO XH))))))) :: []))), (Zpos (XO
    (XO (XI (XO (XI (XO (XO (XI (XI (XI (XI (XI (XI (XI (XI
    XH))))))))))))))))) :: ((((Zpos (XO (XO (XO (XI (XO (XO
    XH))))))) :: ((Zpos (XI (XO (XI (XO (XO (XO XH))))))) :: ((Zpos (XO (XO
    (XO (XI (XI (XO XH))))))) :: ((Zpos (XO (XO (XI (XO (XO
    XH)))))) :: [])))), (Zpos (XI (XO (XI (XO (XI (XO (XO (XI (XI (XI (XI (XI
    (XI (XI (XI XH))))))))))))))))) :: ((((Zpos (XI (XI (XI (XI (XO (XO
    XH))))))) :: ((Zpos (XI (XI (XO (XO (XO (XO XH))))))) :: ((Zpos (XO (XO
    (XI (XO (XI (XO XH))))))) :: ((Zpos (XO (XO (XI (XO (XO
    XH)))))) :: [])))), (Zpos (XO (XI (XI (XO (XI (XO (XO (XI (XI (XI (XI (XI
    (XI (XI (XI XH))))))))))))))))) :: ((((Zpos (XI (XI (XO (XO (XI (XO
    XH))))))) :: ((Zpos (XO (XO (XI (XO (XI (XO XH))))))) :: ((Zpos (XI (XO
    (XO (XI (XO (XO XH))))))) :: ((Zpos (XI (XI (XO (XO (XO (XO
    XH))))))) :: ((Zpos (XI (XI (XO (XI (XO (XO XH))))))) :: []))))), (Zpos
    (XI (XI (XI (XO (XI (XO (XO (XI (XI (XI (XI (XI (XI (XI (XI
    XH))))))))))))))))) :: ((((Zpos (XI (XI (XO (XO (XI (XO
    XH))))))) :: ((Zpos (XO (XO (XI (XO (XI (XO XH))))))) :: ((Zpos (XO (XI
    (XO (XO (XI (XO XH))))))) :: ((Zpos (XI (XO (XO (XI (XO (XO
    XH))))))) :: ((Zpos (XI (XI (XI (XO (XO (XO XH))))))) :: []))))), (Zpos
    (XO (XO (XO (XI (XI (XO (XO (XI (XI (XI (XI (XI (XI (XI (XI
    XH))))))))))))))))) :: ((((Zpos (XI (XI (XI (XO (XO (XO
    XH))))))) :: ((Zpos (XO (XI (XO (XO (XI (XO XH))))))) :: ((Zpos (XO (XO
    (XI (XO (XO XH)))))) :: []))), (Zpos (XI (XO (XO (XI (XI (XO (XO (XI (XI
    (XI (XI (XI (XI (XI (XI XH))))))))))))))))) :: ((((Zpos (XO (XO (XI (XI
    (XO (XO XH))))))) :: ((Zpos (XI (XO (XI (XO (XO (XO XH))))))) :: ((Zpos
    (XO (XI (XI (XO (XO (XO XH))))))) :: ((Zpos (XO (XO (XI (XO (XI (XO
    XH))))))) :: ((Zpos (XO (XO (XI (XO (XO XH)))))) :: []))))), (Zpos (XO
    (XI (XO (XI (XI (XO (XO (XI (XI (XI (XI (XI (XI (XI (XI
    XH))))))))))))))))) :: ((((Zpos (XO (XI (XO (XO (XI (XO
    XH))))))) :: ((Zpos (XI (XO (XO (XI (XO (XO XH))))))) :: ((Zpos (XI (XI
    (XI (XO (XO (XO XH))))))) :: ((Zpos (XO (XO (XO (XI (XO (XO
    XH))))))) :: ((Zpos (XO (XO (XI (XO (XI (XO XH))))))) :: ((Zpos (XO (XO
    (XI (XO (XO XH)))))) :: [])))))), (Zpos (XI (XI (XO (XI (XI (XO (XO (XI
    (XI (XI (XI (XI (XI (XI (XI XH))))))))))))))))) :: ((((Zpos (XI (XO (XI
    (XI (XO (XO XH))))))) :: ((Zpos (XI (XO (XO (XI (XO (XO
    XH))))))) :: ((Zpos (XO (XO (XI (XO (XO (XO XH))))))) :: ((Zpos (XO (XO
    (XI (XO (XO XH)))))) :: [])))), (Zpos (XO (XO (XI (XI (XI (XO (XO (XI (XI
    (XI (XI (XI (XI (XI (XI XH))))))))))))))))) :: ((((Zpos (XI (XO (XO (XI
    (XO (XO XH))))))) :: ((Zpos (XO (XI (XI (XI (XO (XO XH))))))) :: ((Zpos
    (XI (XI (XO (XO (XI (XO XH))))))) :: ((Zpos (XO (XO (XI (XO (XI (XO
    XH))))))) :: ((Zpos (XO (XI (XO (XO (XI (XO XH))))))) :: []))))), (Zpos
    (XI (XO (XI (XI (XI (XO (XO (XI (XI (XI (XI (XI (XI (XI (XI
    XH))))))))))))))))) :: ((((Zpos (XO (XI (XI (XO (XI (XO
    XH))))))) :: ((Zpos (XI (XO (XO (XO (XO (XO XH))))))) :: ((Zpos (XO (XI
    (XO (XO (XI (XO XH))))))) :: ((Zpos (XO (XO (XO (XO (XI (XO
    XH))))))) :: ((Zpos (XO (XO (XI (XO (XI (XO XH))))))) :: ((Zpos (XO (XI
    (XO (XO (XI (XO XH))))))) :: [])))))), (Zpos (XO (XI (XI (XI (XI (XO (XO
    (XI (XI (XI (XI (XI (XI (XI (XI XH))))))))))))))))) :: ((((Zpos (XO (XI
    (XO (XO (XI (XO XH))))))) :: ((Zpos (XO (XI (XI (XI (XO (XO
    XH))))))) :: ((Zpos (XO (XO (XI (XO (XO (XO XH))))))) :: []))), (Zpos (XI
    (XI (XI (XI (XI (XO (XO (XI (XI (XI (XI (XI (XI (XI (XI
    XH))))))))))))))))) :: ((((Zpos (XI (XO (XO (XI (XO (XO
    XH))))))) :: ((Zpos (XO (XI (XI (XI (XO (XO XH))))))) :: ((Zpos (XI (XI
    (XO (XI (XO (XO XH))))))) :: ((Zpos (XI (XO (XI (XO (XO (XO
    XH))))))) :: ((Zpos (XI (XO (XO (XI (XI (XO XH))))))) :: ((Zpos (XO (XO
    (XI (XO (XO XH)))))) :: [])))))), (Zpos (XO (XO (XO (XO (XO (XI (XO (XI
    (XI (XI (XI (XI (XI (XI (XI XH))))))))))))))))) :: ((((Zpos (XI (XO (XO
    (XI (XO (XO XH))))))) :: ((Zpos (XO (XI (XI (XI (XO (XO
    XH))))))) :: ((Zpos (XO (XO (XO (XO (XI (XO XH))))))) :: ((Zpos (XI (XO
    (XI (XO (XI (XO XH))))))) :: ((Zpos (XO (XO (XI (XO (XI (XO
    XH))))))) :: []))))), (Zpos (XI (XO (XO (XO (XO (XI (XO (XI (XI (XI (XI
    (XI (XI (XI (XI XH))))))))))))))))) :: ((((Zpos (XI (XI (XO (XO (XO (XO
    XH))))))) :: ((Zpos (XI (XI (XO (XO (XI (XO XH))))))) :: ((Zpos (XO (XI
    (XO (XO (XI (XO XH))))))) :: ((Zpos (XO (XO (XI (XI (XO (XO
    XH))))))) :: ((Zpos (XI (XO (XO (XI (XO (XO XH))))))) :: ((Zpos (XO (XI
    (XI (XI (XO (XO XH))))))) :: [])))))), (Zpos (XO (XI (XO (XO (XO (XI (XO
    (XI (XI (XI (XI (XI (XI (XI (XI XH))))))))))))))))) :: ((((Zpos (XO (XO
    (XO (XO (XI (XO XH))))))) :: ((Zpos (XI (XI (XI (XI (XO (XO
    XH))))))) :: ((Zpos (XI (XO (XO (XI (XO (XO XH))))))) :: ((Zpos (XO (XI
    (XI (XI (XO (XO XH))))))) :: ((Zpos (XO (XO (XI (XO (XI (XO
    XH))))))) :: []))))), (Zpos (XI (XI (XO (XO (XO (XI (XO (XI (XI (XI (XI
    (XI (XI (XI (XI XH))))))))))))))))) :: ((((Zpos (XI (XI (XO (XO (XI (XO
    XH))))))) :: ((Zpos (XI (XI (XO (XO (XO (XO XH))))))) :: ((Zpos (XO (XI
    (XO (XO (XI (XO XH))))))) :: ((Zpos (XI (XO (XI (XO (XO (XO
    XH))))))) :: ((Zpos (XI (XO (XI (XO (XO (XO XH))))))) :: ((Zpos (XO (XI
    (XI (XI (XO (XO XH))))))) :: [])))))), (Zpos (XO (XO (XI (XO (XO (XI (XO
    (XI (XI (XI (XI (XI (XI (XI (XI XH))))))))))))))))) :: ((((Zpos (XO (XO
    (XO (XO (XI (XO XH))))))) :: ((Zpos (XI (XI (XI (XI (XO (XO
    XH))))))) :: ((Zpos (XI (XI (XO (XO (XI (XO XH))))))) :: []))), (Zpos (XI
    (XO (XI (XO (XO (XI (XO (XI (XI (XI (XI (XI (XI (XI (XI
    XH))))))))))))))))) :: ((((Zpos (XO (XO (XO (XO (XI (XO
    XH))))))) :: ((Zpos (XO (XO (XI (XO (XI (XO XH))))))) :: ((Zpos (XO (XI
    (XO (XO (XI (XO XH))))))) :: ((Zpos (XI (XO (XO (XI (XO (XO
    XH))))))) :: ((Zpos (XI (XI (XI (XO (XO (XO XH))))))) :: []))))), (Zpos
    (XO (XI (XI (XO (XO (XI (XO (XI (XI (XI (XI (XI (XI (XI (XI
    XH))))))))))))))))) :: ((((Zpos (XO (XO (XI (XO (XO (XO
    XH))))))) :: ((Zpos (XI (XI (XO (XO (XI (XO XH))))))) :: ((Zpos (XI (XI
    (XO (XI (XO (XO XH))))))) :: ((Zpos (XO (XI (XI (XO (XO (XO
    XH))))))) :: [])))), (Zpos (XI (XI (XI (XO (XO (XI (XO (XI (XI (XI (XI
    (XI (XI (XI (XI XH))))))))))))))))) :: ((((Zpos (XI (XI (XO (XO (XO (XO
    XH))))))) :: ((Zpos (XO (XI (XI (XO (XI (XO XH))))))) :: ((Zpos (XI (XO
    (XO (XI (XO (XO XH))))))) :: []))), (Zpos (XO (XO (XO (XI (XO (XI (XO (XI
    (XI (XI (XI (XI (XI (XI (XI XH))))))))))))))))) :: ((((Zpos (XI (XI (XO
    (XO (XO (XO XH))))))) :: ((Zpos (XO (XI (XI (XO (XI (XO
    XH))))))) :: ((Zpos (XI (XI (XO (XO (XI (XO XH))))))) :: []))), (Zpos (XI
    (XO (XO (XI (XO (XI (XO (XI (XI (XI (XI (XI (XI (XI (XI
    XH))))))))))))))))) :: ((((Zpos (XI (XO (XI (XI (XO (XO
    XH))))))) :: ((Zpos (XI (XI (XO (XI (XO (XO XH))))))) :: ((Zpos (XI (XO
    (XO (XI (XO (XO XH))))))) :: ((Zpos (XO (XO (XI (XO (XO
    XH)))))) :: [])))), (Zpos (XI (XI (XO (XI (XO (XI (XO (XI (XI (XI (XI (XI
    (XI (XI (XI XH))))))))))))))))) :: ((((Zpos (XI (XO (XI (XI (XO (XO
    XH))))))) :: ((Zpos (XI (XI (XO (XI (XO (XO XH))))))) :: ((Zpos (XI (XI
    (XO (XO (XI (XO XH))))))) :: ((Zpos (XO (XO (XI (XO (XO
    XH)))))) :: [])))), (Zpos (XO (XO (XI (XI (XO (XI (XO (XI (XI (XI (XI (XI
    (XI (XI (XI XH))))))))))))))))) :: ((((Zpos (XO (XO (XI (XI (XO (XO
    XH))))))) :: ((Zpos (XI (XI (XI (XI (XO (XO XH))))))) :: ((Zpos (XI (XI
    (XO (XO (XO (XO XH))))))) :: []))), (Zpos (XO (XI (XI (XI (XO (XI (XO (XI
    (XI (XI (XI (XI (XI (XI (XI XH))))))))))))))))) :: ((((Zpos (XO (XO (XI
    (XI (XO (XO XH))))))) :: ((Zpos (XI (XI (XI (XI (XO (XO
    XH))))))) :: ((Zpos (XO (XI (XI (XO (XO (XO XH))))))) :: []))), (Zpos (XI
    (XI (XI (XI (XO (XI (XO (XI (XI (XI (XI (XI (XI (XI (XI
    XH))))))))))))))))) :: ((((Zpos (XI (XI (XO (XO (XI (XO
    XH))))))) :: ((Zpos (XO (XO (XO (XO (XI (XO XH))))))) :: ((Zpos (XI (XO
    (XO (XO (XO (XO XH))))))) :: ((Zpos (XI (XI (XO (XO (XO (XO
    XH))))))) :: ((Zpos (XI (XO (XI (XO (XO (XO XH))))))) :: ((Zpos (XO (XO
    (XI (XO (XO XH)))))) :: [])))))), (Zpos (XO (XO (XO (XO (XI (XI (XO (XI
    (XI (XI (XI (XI (XI (XI (XI XH))))))))))))))))) :: ((((Zpos (XI (XI (XO
    (XO (XI (XO XH))))))) :: ((Zpos (XO (XO (XI (XO (XI (XO
    XH))))))) :: ((Zpos (XO (XI (XO (XO (XI (XO XH))))))) :: ((Zpos (XI (XO
    (XO (XI (XO (XO XH))))))) :: ((Zpos (XO (XI (XI (XI (XO (XO
    XH))))))) :: ((Zpos (XI (XI (XI (XO (XO (XO XH))))))) :: ((Zpos (XO (XO
    (XI (XO (XO XH)))))) :: []))))))), (Zpos (XI (XO (XO (XO (XI (XI (XO (XI
    (XI (XI (XI (XI (XI (XI (XI XH))))))))))))))))) :: ((((Zpos (XO (XO (XI
    (XO (XO (XO XH))))))) :: ((Zpos (XI (XI (XO (XO (XI (XO
    XH))))))) :: ((Zpos (XI (XI (XO (XI (XO (XO XH))))))) :: ((Zpos (XI (XO
    (XO (XI (XO (XO XH))))))) :: ((Zpos (XO (XO (XI (XO (XO
    XH)))))) :: []))))), (Zpos (XO (XI (XO (XO (XI (XI (XO (XI (XI (XI (XI
    (XI (XI (XI (XI
    XH))))))))))))))))) :: [])))))))))))))))))))))))))))))))))))))))))))))))))))))))))))))))))))))))))))))))))))))))))))))))))))))))))))))))))))))))))))))))))))))))))))))))))))))))

(** val require_colon : z list list **)

let require_colon =
  ((Zpos (XI (XO (XI (XO (XO (XO XH))))))) :: ((Zpos (XO (XO (XI (XI (XO (XO
    XH))))))) :: ((Zpos (XI (XI (XO (XO (XI (XO XH))))))) :: ((Zpos (XI (XO
    (XI (XO (XO (XO XH))))))) :: [])))) :: []

(** val special_chars : z list **)

let special_chars =
  (Zpos (XO (XI (XI (XI (XO XH)))))) :: ((Zpos (XO (XO (XI (XI (XO
    XH)))))) :: ((Zpos (XO (XO (XO (XI (XO XH)))))) :: ((Zpos (XI (XO (XO (XI
    (XO XH)))))) :: ((Zpos (XO (XI (XO (XI (XI XH)))))) :: ((Zpos (XI (XI (XO
    (XI (XI XH)))))) :: ((Zpos (XO (XO (XO (XO (XO XH)))))) :: []))))))

(** val program_base : z **)

let program_base =
  Zpos (XO (XO (XI (XO (XO (XI (XO (XI (XI (XO (XI (XO (XO XH)))))))))))))

(** val conv_u16 : z -> z list **)

let conv_u16 value =
  (Z.coq_land (Z.div value (Zpos (XO (XO (XO (XO (XO (XO (XO (XO XH))))))))))
    (Zpos (XI (XI (XI (XI (XI (XI (XI XH))))))))) :: ((Z.coq_land value (Zpos
                                                        (XI (XI (XI (XI (XI
                                                        (XI (XI XH))))))))) :: [])

(** val tok_u8 : z -> z list **)

let tok_u8 value =
  (Z.coq_land value (Zpos (XI (XI (XI (XI (XI (XI (XI XH))))))))) :: []

(** val tok_u16 : z -> z list **)

let tok_u16 value =
  (Z.coq_land (Z.div value (Zpos (XO (XO (XO (XO (XO (XO (XO (XO XH))))))))))
    (Zpos (XI (XI (XI (XI (XI (XI (XI XH))))))))) :: ((Z.coq_land value (Zpos
                                                        (XI (XI (XI (XI (XI
                                                        (XI (XI XH))))))))) :: [])

(** val bytes_from_uint : z -> z list **)

let bytes_from_uint value =
  if Z.ltb value (Zpos (XO (XO (XO (XO (XO (XO (XO (XO XH)))))))))
  then tok_u8 value
  else tok_u16 value

(** val colon_byte : z **)

let colon_byte =
  Zpos (XO (XI (XO (XI (XI XH)))))

(** val ptr_step : z -> z list -> z **)

let ptr_step pointerNext lineBuffer =
  Z.add pointerNext (Z.add (zlen lineBuffer) (Zpos (XO (XO XH))))

(** val prog_marker : z list **)

let prog_marker =
  (Zpos (XI (XI (XI (XI (XI (XI (XI XH)))))))) :: []

(** val line_end : z list **)

let line_end =
  Z0 :: []

(** val prog_end : z list **)

let prog_end =
  Z0 :: (Z0 :: [])

(** val ascii_eol : z list **)

let ascii_eol =
  (Zpos (XI (XO (XI XH)))) :: []

(** val ascii_keep : z -> bool **)

let ascii_keep car =
  Z.ltb car (Zpos (XO (XO (XO (XO (XO (XO (XO XH))))))))

(** val b2l_eol : bool -> z list **)

let b2l_eol = function
| true -> (Zpos (XI (XO (XI XH)))) :: ((Zpos (XO (XI (XO XH)))) :: [])
| false -> (Zpos (XO (XI (XO XH)))) :: []

(** val b2l_is_sep : z -> bool **)

let b2l_is_sep byte =
  existsb (Z.eqb byte) ((Zpos (XI (XO (XI XH)))) :: ((Zpos (XO (XI (XO
    XH)))) :: []))

(** val b2l_flush_test : z -> bool **)

let b2l_flush_test n0 =
  Z.ltb Z0 n0

(** val lookup : z list -> (z list * z) list -> z option **)

let rec lookup k = function
| [] -> None
| p :: r -> let (k', v) = p in if zeqb_list k k' then Some v else lookup k r

(** val tok_of : z list -> z option **)

let tok_of k =
  lookup k basic_tokens

(** val needs_colon : z list -> bool **)

let needs_colon k =
  existsb (zeqb_list k) require_colon

(** val utf8_char : z -> z list **)

let utf8_char c =
  if Z.ltb c (Zpos (XO (XO (XO (XO (XO (XO (XO XH))))))))
  then c :: []
  else if Z.ltb c (Zpos (XO (XO (XO (XO (XO (XO (XO (XO (XO (XO (XO
            XH))))))))))))
       then (Z.add (Zpos (XO (XO (XO (XO (XO (XO (XI XH))))))))
              (Z.div c (Zpos (XO (XO (XO (XO (XO (XO XH))))))))) :: (
              (Z.add (Zpos (XO (XO (XO (XO (XO (XO (XO XH))))))))
                (Z.modulo c (Zpos (XO (XO (XO (XO (XO (XO XH))))))))) :: [])
       else if Z.ltb c (Zpos (XO (XO (XO (XO (XO (XO (XO (XO (XO (XO (XO (XO
                 (XO (XO (XO (XO XH)))))))))))))))))
            then (Z.add (Zpos (XO (XO (XO (XO (XO (XI (XI XH))))))))
                   (Z.div c (Zpos (XO (XO (XO (XO (XO (XO (XO (XO (XO (XO (XO
                     (XO XH))))))))))))))) :: ((Z.add (Zpos (XO (XO (XO (XO
                                                 (XO (XO (XO XH))))))))
                                                 (Z.modulo
                                                   (Z.div c (Zpos (XO (XO (XO
                                                     (XO (XO (XO XH))))))))
                                                   (Zpos (XO (XO (XO (XO (XO
                                                   (XO XH))))))))) :: (
                   (Z.add (Zpos (XO (XO (XO (XO (XO (XO (XO XH))))))))
                     (Z.modulo c (Zpos (XO (XO (XO (XO (XO (XO XH))))))))) :: []))
            else (Z.add (Zpos (XO (XO (XO (XO (XI (XI (XI XH))))))))
                   (Z.div c (Zpos (XO (XO (XO (XO (XO (XO (XO (XO (XO (XO (XO
                     (XO (XO (XO (XO (XO (XO (XO XH))))))))))))))))))))) :: (
                   (Z.add (Zpos (XO (XO (XO (XO (XO (XO (XO XH))))))))
                     (Z.modulo
                       (Z.div c (Zpos (XO (XO (XO (XO (XO (XO (XO (XO (XO (XO
                         (XO (XO XH)))))))))))))) (Zpos (XO (XO (XO (XO (XO
                       (XO XH))))))))) :: ((Z.add (Zpos (XO (XO (XO (XO (XO
                                             (XO (XO XH))))))))
                                             (Z.modulo
                                               (Z.div c (Zpos (XO (XO (XO (XO
                                                 (XO (XO XH)))))))) (Zpos (XO
                                               (XO (XO (XO (XO (XO XH))))))))) :: (
                   (Z.add (Zpos (XO (XO (XO (XO (XO (XO (XO XH))))))))
                     (Z.modulo c (Zpos (XO (XO (XO (XO (XO (XO XH))))))))) :: [])))

(** val utf8 : z list -> z list **)

let utf8 s =
  flat_map utf8_char s

type tctx = { t_done : z list; t_cand : z list; t_src : z list;
              t_bucket : z list }

(** val tctx0 : tctx **)

let tctx0 =
  { t_done = []; t_cand = []; t_src = []; t_bucket = [] }

(** val commit : tctx -> tctx **)

let commit t =
  { t_done = (app t.t_done (app t.t_cand (utf8 t.t_bucket))); t_cand = [];
    t_src = []; t_bucket = [] }

(** val token_bytes : z list -> z -> z list **)

let token_bytes k v =
  app (if needs_colon k then tok_u8 colon_byte else []) (bytes_from_uint v)

(** val append_plain : tctx -> z list -> z -> tctx **)

let append_plain t src' c =
  match tok_of (c :: []) with
  | Some v ->
    let t1 = commit t in
    commit { t_done = t1.t_done; t_cand =
      (app t1.t_cand (bytes_from_uint v)); t_src = t1.t_src; t_bucket =
      t1.t_bucket }
  | None ->
    { t_done = t.t_done; t_cand = t.t_cand; t_src = src'; t_bucket =
      (app t.t_bucket (c :: [])) }

(** val append_token : tctx -> z -> tctx **)

let append_token t c =
  let src' = app t.t_src (c :: []) in
  (match tok_of src' with
   | Some v ->
     { t_done = t.t_done; t_cand = (token_bytes src' v); t_src = src';
       t_bucket = [] }
   | None ->
     (match tok_of t.t_bucket with
      | Some v ->
        let t1 =
          commit { t_done = t.t_done; t_cand =
            (app t.t_cand (token_bytes t.t_bucket v)); t_src = src';
            t_bucket = [] }
        in
        (match tok_of (c :: []) with
         | Some v1 ->
           { t_done = t1.t_done; t_cand = (token_bytes (c :: []) v1); t_src =
             (c :: []); t_bucket = [] }
         | None ->
           append_plain { t_done = t1.t_done; t_cand = []; t_src = (c :: []);
             t_bucket = [] } (c :: []) c)
      | None -> append_plain t src' c))

(** val append_literal : tctx -> z -> tctx **)

let append_literal t c =
  { t_done = t.t_done; t_cand = t.t_cand; t_src = (app t.t_src (c :: []));
    t_bucket = (app t.t_bucket (c :: [])) }

(** val is_special : z -> bool **)

let is_special c =
  existsb (Z.eqb c) special_chars

(** val is_one_char_token : z -> bool **)

let is_one_char_token c =
  match tok_of (c :: []) with
  | Some _ -> true
  | None -> false

(** val parse_char : (tctx * bool) -> z -> tctx * bool **)

let parse_char st c =
  let (t, inlit) = st in
  if Z.eqb c (Zpos (XO (XI (XO (XO (XO XH))))))
  then let t1 = commit t in
       let inlit' = negb inlit in
       ((commit (if inlit' then append_literal t1 c else append_token t1 c)),
       inlit')
  else if inlit
       then ((append_literal t c), inlit)
       else if (||) (is_special c) (is_one_char_token c)
            then ((commit (append_token t c)), inlit)
            else ((append_token t (upper_char c)), inlit)

(** val parse_line : z list -> z list **)

let parse_line text =
  (commit (fst (fold_left parse_char text (tctx0, false)))).t_done

(** val extract_line_parts : z list -> (z * z list) res **)

let extract_line_parts line = match line with
| [] -> Err EValue
| c :: r ->
  if (&&) (is_digit19 c)
       (negb (existsb (Z.eqb (Zpos (XO (XI (XO XH))))) (removelast line)))
  then let ds = c :: (take_digits r) in
       let rest = skipn (length ds) line in
       let rest0 =
         match rev rest with
         | [] -> rest
         | z0 :: t ->
           (match z0 with
            | Zpos p ->
              (match p with
               | XO p0 ->
                 (match p0 with
                  | XI p1 ->
                    (match p1 with
                     | XO p2 -> (match p2 with
                                 | XH -> rev t
                                 | _ -> rest)
                     | _ -> rest)
                  | _ -> rest)
               | _ -> rest)
            | _ -> rest)
       in
       let rest1 =
         match rest0 with
         | [] -> rest0
         | z0 :: t ->
           (match z0 with
            | Zpos p ->
              (match p with
               | XO p0 ->
                 (match p0 with
                  | XO p1 ->
                    (match p1 with
                     | XO p2 ->
                       (match p2 with
                        | XO p3 ->
                          (match p3 with
                           | XO p4 -> (match p4 with
                                       | XH -> t
                                       | _ -> rest0)
                           | _ -> rest0)
                        | _ -> rest0)
                     | _ -> rest0)
                  | _ -> rest0)
               | _ -> rest0)
            | _ -> rest0)
       in
       Ok ((undec ds), rest1)
  else Err EValue

(** val convert_lines : z list list -> z -> z list -> z list res **)

let rec convert_lines lines ptr body =
  match lines with
  | [] -> Ok body
  | l :: r ->
    (match extract_line_parts l with
     | Ok a ->
       let (num, text) = a in
       let buf = app (parse_line text) line_end in
       let ptr' = ptr_step ptr buf in
       convert_lines r ptr'
         (app body (app (conv_u16 ptr') (app (conv_u16 num) buf)))
     | Err e -> Err e)

(** val tokenize_program : z list list -> z list res **)

let tokenize_program lines =
  match convert_lines lines program_base [] with
  | Ok body ->
    let body0 = app body prog_end in
    Ok (app prog_marker (app (conv_u16 (zlen body0)) body0))
  | Err e -> Err e

(** val ascii_line : z list -> z list **)

let ascii_line l =
  app (filter ascii_keep (rstrip_py l)) ascii_eol

(** val lst_to_ascii : z list list -> z list **)

let lst_to_ascii lines =
  app ascii_eol (flat_map ascii_line lines)

(** val b2l_loop : bool -> z list -> z -> z list **)

let rec b2l_loop dos data n0 =
  match data with
  | [] -> if b2l_flush_test n0 then b2l_eol dos else []
  | b :: r ->
    if b2l_is_sep b
    then app (if b2l_flush_test n0 then b2l_eol dos else [])
           (b2l_loop dos r Z0)
    else b :: (b2l_loop dos r (Z.add n0 (Zpos XH)))

(** val ascii_to_lst : bool -> z list -> z list **)

let ascii_to_lst dos data =
  b2l_loop dos data Z0

(** val mo5_vocabulary : (z list * z) list **)

let mo5_vocabulary =
  (((Zpos (XI (XO (XI (XO (XO (XO XH))))))) :: ((Zpos (XO (XI (XI (XI (XO (XO
    XH))))))) :: ((Zpos (XO (XO (XI (XO (XO (XO XH))))))) :: []))), (Zpos (XO
    (XO (XO (XO (XO (XO (XO XH))))))))) :: ((((Zpos (XO (XI (XI (XO (XO (XO
    XH))))))) :: ((Zpos (XI (XI (XI (XI (XO (XO XH))))))) :: ((Zpos (XO (XI
    (XO (XO (XI (XO XH))))))) :: []))), (Zpos (XI (XO (XO (XO (XO (XO (XO
    XH))))))))) :: ((((Zpos (XO (XI (XI (XI (XO (XO XH))))))) :: ((Zpos (XI
    (XO (XI (XO (XO (XO XH))))))) :: ((Zpos (XO (XO (XO (XI (XI (XO
    XH))))))) :: ((Zpos (XO (XO (XI (XO (XI (XO XH))))))) :: [])))), (Zpos
    (XO (XI (XO (XO (XO (XO (XO XH))))))))) :: ((((Zpos (XO (XO (XI (XO (XO
    (XO XH))))))) :: ((Zpos (XI (XO (XO (XO (XO (XO XH))))))) :: ((Zpos (XO
    (XO (XI (XO (XI (XO XH))))))) :: ((Zpos (XI (XO (XO (XO (XO (XO
    XH))))))) :: [])))), (Zpos (XI (XI (XO (XO (XO (XO (XO
    XH))))))))) :: ((((Zpos (XO (XO (XI (XO (XO (XO XH))))))) :: ((Zpos (XI
    (XO (XO (XI (XO (XO XH))))))) :: ((Zpos (XI (XO (XI (XI (XO (XO
    XH))))))) :: []))), (Zpos (XO (XO (XI (XO (XO (XO (XO
    XH))))))))) :: ((((Zpos (XO (XI (XO (XO (XI (XO XH))))))) :: ((Zpos (XI
    (XO (XI (XO (XO (XO XH))))))) :: ((Zpos (XI (XO (XO (XO (XO (XO
    XH))))))) :: ((Zpos (XO (XO (XI (XO (XO (XO XH))))))) :: [])))), (Zpos
    (XI (XO (XI (XO (XO (XO (XO XH))))))))) :: ((((Zpos (XI (XI (XI (XO (XO
    (XO XH))))))) :: ((Zpos (XI (XI (XI (XI (XO (XO XH))))))) :: [])), (Zpos
    (XI (XI (XI (XO (XO (XO (XO XH))))))))) :: ((((Zpos (XO (XI (XO (XO (XI
    (XO XH))))))) :: ((Zpos (XI (XO (XI (XO (XI (XO XH))))))) :: ((Zpos (XO
    (XI (XI (XI (XO (XO XH))))))) :: []))), (Zpos (XO (XO (XO (XI (XO (XO (XO
    XH))))))))) :: ((((Zpos (XI (XO (XO (XI (XO (XO XH))))))) :: ((Zpos (XO
    (XI (XI (XO (XO (XO XH))))))) :: [])), (Zpos (XI (XO (XO (XI (XO (XO (XO
    XH))))))))) :: ((((Zpos (XO (XI (XO (XO (XI (XO XH))))))) :: ((Zpos (XI
    (XO (XI (XO (XO (XO XH))))))) :: ((Zpos (XI (XI (XO (XO (XI (XO
    XH))))))) :: ((Zpos (XO (XO (XI (XO (XI (XO XH))))))) :: ((Zpos (XI (XI
    (XI (XI (XO (XO XH))))))) :: ((Zpos (XO (XI (XO (XO (XI (XO
    XH))))))) :: ((Zpos (XI (XO (XI (XO (XO (XO XH))))))) :: []))))))), (Zpos
    (XO (XI (XO (XI (XO (XO (XO XH))))))))) :: ((((Zpos (XO (XI (XO (XO (XI
    (XO XH))))))) :: ((Zpos (XI (XO (XI (XO (XO (XO XH))))))) :: ((Zpos (XO
    (XO (XI (XO (XI (XO XH))))))) :: ((Zpos (XI (XO (XI (XO (XI (XO
    XH))))))) :: ((Zpos (XO (XI (XO (XO (XI (XO XH))))))) :: ((Zpos (XO (XI
    (XI (XI (XO (XO XH))))))) :: [])))))), (Zpos (XI (XI (XO (XI (XO (XO (XO
    XH))))))))) :: ((((Zpos (XO (XI (XO (XO (XI (XO XH))))))) :: ((Zpos (XI
    (XO (XI (XO (XO (XO XH))))))) :: ((Zpos (XI (XO (XI (XI (XO (XO
    XH))))))) :: []))), (Zpos (XO (XO (XI (XI (XO (XO (XO
    XH))))))))) :: ((((Zpos (XI (XI (XI (XO (XO XH)))))) :: []), (Zpos (XI
    (XO (XI (XI (XO (XO (XO XH))))))))) :: ((((Zpos (XI (XI (XO (XO (XI (XO
    XH))))))) :: ((Zpos (XO (XO (XI (XO (XI (XO XH))))))) :: ((Zpos (XI (XI
    (XI (XI (XO (XO XH))))))) :: ((Zpos (XO (XO (XO (XO (XI (XO
    XH))))))) :: [])))), (Zpos (XO (XI (XI (XI (XO (XO (XO
    XH))))))))) :: ((((Zpos (XI (XO (XI (XO (XO (XO XH))))))) :: ((Zpos (XO
    (XO (XI (XI (XO (XO XH))))))) :: ((Zpos (XI (XI (XO (XO (XI (XO
    XH))))))) :: ((Zpos (XI (XO (XI (XO (XO (XO XH))))))) :: [])))), (Zpos
    (XI (XI (XI (XI (XO (XO (XO XH))))))))) :: ((((Zpos (XO (XO (XI (XO (XI
    (XO XH))))))) :: ((Zpos (XO (XI (XO (XO (XI (XO XH))))))) :: ((Zpos (XI
    (XI (XI (XI (XO (XO XH))))))) :: ((Zpos (XO (XI (XI (XI (XO (XO
    XH))))))) :: [])))), (Zpos (XO (XO (XO (XO (XI (XO (XO
    XH))))))))) :: ((((Zpos (XO (XO (XI (XO (XI (XO XH))))))) :: ((Zpos (XO
    (XI (XO (XO (XI (XO XH))))))) :: ((Zpos (XI (XI (XI (XI (XO (XO
    XH))))))) :: ((Zpos (XO (XI (XI (XO (XO (XO XH))))))) :: ((Zpos (XO (XI
    (XI (XO (XO (XO XH))))))) :: []))))), (Zpos (XI (XO (XO (XO (XI (XO (XO
    XH))))))))) :: ((((Zpos (XO (XO (XI (XO (XO (XO XH))))))) :: ((Zpos (XI
    (XO (XI (XO (XO (XO XH))))))) :: ((Zpos (XO (XI (XI (XO (XO (XO
    XH))))))) :: ((Zpos (XI (XI (XO (XO (XI (XO XH))))))) :: ((Zpos (XO (XO
    (XI (XO (XI (XO XH))))))) :: ((Zpos (XO (XI (XO (XO (XI (XO
    XH))))))) :: [])))))), (Zpos (XO (XI (XO (XO (XI (XO (XO
    XH))))))))) :: ((((Zpos (XO (XO (XI (XO (XO (XO XH))))))) :: ((Zpos (XI
    (XO (XI (XO (XO (XO XH))))))) :: ((Zpos (XO (XI (XI (XO (XO (XO
    XH))))))) :: ((Zpos (XI (XO (XO (XI (XO (XO XH))))))) :: ((Zpos (XO (XI
    (XI (XI (XO (XO XH))))))) :: ((Zpos (XO (XO (XI (XO (XI (XO
    XH))))))) :: [])))))), (Zpos (XI (XI (XO (XO (XI (XO (XO
    XH))))))))) :: ((((Zpos (XO (XO (XI (XO (XO (XO XH))))))) :: ((Zpos (XI
    (XO (XI (XO (XO (XO XH))))))) :: ((Zpos (XO (XI (XI (XO (XO (XO
    XH))))))) :: ((Zpos (XI (XI (XO (XO (XI (XO XH))))))) :: ((Zpos (XO (XI
    (XI (XI (XO (XO XH))))))) :: ((Zpos (XI (XI (XI (XO (XO (XO
    XH))))))) :: [])))))), (Zpos (XO (XO (XI (XO (XI (XO (XO
    XH))))))))) :: ((((Zpos (XI (XI (XI (XI (XO (XO XH))))))) :: ((Zpos (XO
    (XI (XI (XI (XO (XO XH))))))) :: [])), (Zpos (XO (XI (XI (XO (XI (XO (XO
    XH))))))))) :: ((((Zpos (XO (XO (XI (XO (XI (XO XH))))))) :: ((Zpos (XI
    (XO (XI (XO (XI (XO XH))))))) :: ((Zpos (XO (XI (XI (XI (XO (XO
    XH))))))) :: ((Zpos (XI (XO (XI (XO (XO (XO XH))))))) :: [])))), (Zpos
    (XI (XI (XI (XO (XI (XO (XO XH))))))))) :: ((((Zpos (XI (XO (XI (XO (XO
    (XO XH))))))) :: ((Zpos (XO (XI (XO (XO (XI (XO XH))))))) :: ((Zpos (XO
    (XI (XO (XO (XI (XO XH))))))) :: ((Zpos (XI (XI (XI (XI (XO (XO
    XH))))))) :: ((Zpos (XO (XI (XO (XO (XI (XO XH))))))) :: []))))), (Zpos
    (XO (XO (XO (XI (XI (XO (XO XH))))))))) :: ((((Zpos (XO (XI (XO (XO (XI
    (XO XH))))))) :: ((Zpos (XI (XO (XI (XO (XO (XO XH))))))) :: ((Zpos (XI
    (XI (XO (XO (XI (XO XH))))))) :: ((Zpos (XI (XO (XI (XO (XI (XO
    XH))))))) :: ((Zpos (XI (XO (XI (XI (XO (XO XH))))))) :: ((Zpos (XI (XO
    (XI (XO (XO (XO XH))))))) :: [])))))), (Zpos (XI (XO (XO (XI (XI (XO (XO
    XH))))))))) :: ((((Zpos (XI (XO (XO (XO (XO (XO XH))))))) :: ((Zpos (XI
    (XO (XI (XO (XI (XO XH))))))) :: ((Zpos (XO (XO (XI (XO (XI (XO
    XH))))))) :: ((Zpos (XI (XI (XI (XI (XO (XO XH))))))) :: [])))), (Zpos
    (XO (XI (XO (XI (XI (XO (XO XH))))))))) :: ((((Zpos (XO (XO (XI (XO (XO
    (XO XH))))))) :: ((Zpos (XI (XO (XI (XO (XO (XO XH))))))) :: ((Zpos (XO
    (XO (XI (XI (XO (XO XH))))))) :: ((Zpos (XI (XO (XI (XO (XO (XO
    XH))))))) :: ((Zpos (XO (XO (XI (XO (XI (XO XH))))))) :: ((Zpos (XI (XO
    (XI (XO (XO (XO XH))))))) :: [])))))), (Zpos (XI (XI (XO (XI (XI (XO (XO
    XH))))))))) :: ((((Zpos (XO (XO (XI (XI (XO (XO XH))))))) :: ((Zpos (XI
    (XI (XI (XI (XO (XO XH))))))) :: ((Zpos (XI (XI (XO (XO (XO (XO
    XH))))))) :: ((Zpos (XI (XO (XO (XO (XO (XO XH))))))) :: ((Zpos (XO (XO
    (XI (XO (XI (XO XH))))))) :: ((Zpos (XI (XO (XI (XO (XO (XO
    XH))))))) :: [])))))), (Zpos (XO (XO (XI (XI (XI (XO (XO
    XH))))))))) :: ((((Zpos (XI (XI (XO (XO (XO (XO XH))))))) :: ((Zpos (XO
    (XO (XI (XI (XO (XO XH))))))) :: ((Zpos (XI (XI (XO (XO (XI (XO
    XH))))))) :: []))), (Zpos (XI (XO (XI (XI (XI (XO (XO
    XH))))))))) :: ((((Zpos (XI (XI (XO (XO (XO (XO XH))))))) :: ((Zpos (XI
    (XI (XI (XI (XO (XO XH))))))) :: ((Zpos (XO (XI (XI (XI (XO (XO
    XH))))))) :: ((Zpos (XI (XI (XO (XO (XI (XO XH))))))) :: ((Zpos (XI (XI
    (XI (XI (XO (XO XH))))))) :: ((Zpos (XO (XO (XI (XI (XO (XO
    XH))))))) :: ((Zpos (XI (XO (XI (XO (XO (XO XH))))))) :: []))))))), (Zpos
    (XO (XI (XI (XI (XI (XO (XO XH))))))))) :: ((((Zpos (XO (XO (XO (XO (XI
    (XO XH))))))) :: ((Zpos (XI (XI (XO (XO (XI (XO XH))))))) :: ((Zpos (XI
    (XO (XI (XO (XO (XO XH))))))) :: ((Zpos (XO (XO (XI (XO (XI (XO
    XH))))))) :: [])))), (Zpos (XI (XI (XI (XI (XI (XO (XO
    XH))))))))) :: ((((Zpos (XI (XO (XI (XI (XO (XO XH))))))) :: ((Zpos (XI
    (XI (XI (XI (XO (XO XH))))))) :: ((Zpos (XO (XO (XI (XO (XI (XO
    XH))))))) :: ((Zpos (XI (XI (XI (XI (XO (XO XH))))))) :: ((Zpos (XO (XI
    (XO (XO (XI (XO XH))))))) :: []))))), (Zpos (XO (XO (XO (XO (XO (XI (XO
    XH))))))))) :: ((((Zpos (XI (XI (XO (XO (XI (XO XH))))))) :: ((Zpos (XI
    (XI (XO (XI (XO (XO XH))))))) :: ((Zpos (XI (XO (XO (XI (XO (XO
    XH))))))) :: ((Zpos (XO (XO (XO (XO (XI (XO XH))))))) :: ((Zpos (XO (XI
    (XI (XO (XO (XO XH))))))) :: []))))), (Zpos (XI (XO (XO (XO (XO (XI (XO
    XH))))))))) :: ((((Zpos (XI (XO (XI (XO (XO (XO XH))))))) :: ((Zpos (XO
    (XO (XO (XI (XI (XO XH))))))) :: ((Zpos (XI (XO (XI (XO (XO (XO
    XH))))))) :: ((Zpos (XI (XI (XO (XO (XO (XO XH))))))) :: [])))), (Zpos
    (XO (XI (XO (XO (XO (XI (XO XH))))))))) :: ((((Zpos (XO (XI (XO (XO (XO
    (XO XH))))))) :: ((Zpos (XI (XO (XI (XO (XO (XO XH))))))) :: ((Zpos (XI
    (XO (XI (XO (XO (XO XH))))))) :: ((Zpos (XO (XO (XO (XO (XI (XO
    XH))))))) :: [])))), (Zpos (XI (XI (XO (XO (XO (XI (XO
    XH))))))))) :: ((((Zpos (XI (XI (XO (XO (XO (XO XH))))))) :: ((Zpos (XI
    (XI (XI (XI (XO (XO XH))))))) :: ((Zpos (XO (XO (XI (XI (XO (XO
    XH))))))) :: ((Zpos (XI (XI (XI (XI (XO (XO XH))))))) :: ((Zpos (XO (XI
    (XO (XO (XI (XO XH))))))) :: []))))), (Zpos (XO (XO (XI (XO (XO (XI (XO
    XH))))))))) :: ((((Zpos (XO (XO (XI (XI (XO (XO XH))))))) :: ((Zpos (XI
    (XO (XO (XI (XO (XO XH))))))) :: ((Zpos (XO (XI (XI (XI (XO (XO
    XH))))))) :: ((Zpos (XI (XO (XI (XO (XO (XO XH))))))) :: [])))), (Zpos
    (XI (XO (XI (XO (XO (XI (XO XH))))))))) :: ((((Zpos (XO (XI (XO (XO (XO
    (XO XH))))))) :: ((Zpos (XI (XI (XI (XI (XO (XO XH))))))) :: ((Zpos (XO
    (XO (XO (XI (XI (XO XH))))))) :: []))), (Zpos (XO (XI (XI (XO (XO (XI (XO
    XH))))))))) :: ((((Zpos (XI (XO (XO (XO (XO (XO XH))))))) :: ((Zpos (XO
    (XO (XI (XO (XI (XO XH))))))) :: ((Zpos (XO (XO (XI (XO (XI (XO
    XH))))))) :: ((Zpos (XO (XI (XO (XO (XI (XO XH))))))) :: ((Zpos (XO (XI
    (XO (XO (XO (XO XH))))))) :: []))))), (Zpos (XO (XO (XO (XI (XO (XI (XO
    XH))))))))) :: ((((Zpos (XO (XO (XI (XO (XO (XO XH))))))) :: ((Zpos (XI
    (XO (XI (XO (XO (XO XH))))))) :: ((Zpos (XO (XI (XI (XO (XO (XO
    XH))))))) :: []))), (Zpos (XI (XO (XO (XI (XO (XI (XO
    XH))))))))) :: ((((Zpos (XO (XO (XO (XO (XI (XO XH))))))) :: ((Zpos (XI
    (XI (XI (XI (XO (XO XH))))))) :: ((Zpos (XI (XI (XO (XI (XO (XO
    XH))))))) :: ((Zpos (XI (XO (XI (XO (XO (XO XH))))))) :: [])))), (Zpos
    (XO (XI (XO (XI (XO (XI (XO XH))))))))) :: ((((Zpos (XO (XO (XO (XO (XI
    (XO XH))))))) :: ((Zpos (XO (XI (XO (XO (XI (XO XH))))))) :: ((Zpos (XI
    (XO (XO (XI (XO (XO XH))))))) :: ((Zpos (XO (XI (XI (XI (XO (XO
    XH))))))) :: ((Zpos (XO (XO (XI (XO (XI (XO XH))))))) :: []))))), (Zpos
    (XI (XI (XO (XI (XO (XI (XO XH))))))))) :: ((((Zpos (XI (XI (XO (XO (XO
    (XO XH))))))) :: ((Zpos (XI (XI (XI (XI (XO (XO XH))))))) :: ((Zpos (XO
    (XI (XI (XI (XO (XO XH))))))) :: ((Zpos (XO (XO (XI (XO (XI (XO
    XH))))))) :: [])))), (Zpos (XO (XO (XI (XI (XO (XI (XO
    XH))))))))) :: ((((Zpos (XO (XO (XI (XI (XO (XO XH))))))) :: ((Zpos (XI
    (XO (XO (XI (XO (XO XH))))))) :: ((Zpos (XI (XI (XO (XO (XI (XO
    XH))))))) :: ((Zpos (XO (XO (XI (XO (XI (XO XH))))))) :: [])))), (Zpos
    (XI (XO (XI (XI (XO (XI (XO XH))))))))) :: ((((Zpos (XI (XI (XO (XO (XO
    (XO XH))))))) :: ((Zpos (XO (XO (XI (XI (XO (XO XH))))))) :: ((Zpos (XI
    (XO (XI (XO (XO (XO XH))))))) :: ((Zpos (XI (XO (XO (XO (XO (XO
    XH))))))) :: ((Zpos (XO (XI (XO (XO (XI (XO XH))))))) :: []))))), (Zpos
    (XO (XI (XI (XI (XO (XI (XO XH))))))))) :: ((((Zpos (XO (XO (XI (XO (XO
    (XO XH))))))) :: ((Zpos (XI (XI (XI (XI (XO (XO XH))))))) :: ((Zpos (XI
    (XI (XO (XO (XI (XO XH))))))) :: []))), (Zpos (XI (XI (XI (XI (XO (XI (XO
    XH))))))))) :: ((((Zpos (XO (XI (XI (XI (XO (XO XH))))))) :: ((Zpos (XI
    (XO (XI (XO (XO (XO XH))))))) :: ((Zpos (XI (XI (XI (XO (XI (XO
    XH))))))) :: []))), (Zpos (XI (XO (XO (XO (XI (XI (XO
    XH))))))))) :: ((((Zpos (XI (XI (XO (XO (XI (XO XH))))))) :: ((Zpos (XI
    (XO (XO (XO (XO (XO XH))))))) :: ((Zpos (XO (XI (XI (XO (XI (XO
    XH))))))) :: ((Zpos (XI (XO (XI (XO (XO (XO XH))))))) :: [])))), (Zpos
    (XO (XI (XO (XO (XI (XI (XO XH))))))))) :: ((((Zpos (XO (XO (XI (XI (XO
    (XO XH))))))) :: ((Zpos (XI (XI (XI (XI (XO (XO XH))))))) :: ((Zpos (XI
    (XO (XO (XO (XO (XO XH))))))) :: ((Zpos (XO (XO (XI (XO (XO (XO
    XH))))))) :: [])))), (Zpos (XI (XI (XO (XO (XI (XI (XO
    XH))))))))) :: ((((Zpos (XI (XO (XI (XI (XO (XO XH))))))) :: ((Zpos (XI
    (XO (XI (XO (XO (XO XH))))))) :: ((Zpos (XO (XI (XO (XO (XI (XO
    XH))))))) :: ((Zpos (XI (XI (XI (XO (XO (XO XH))))))) :: ((Zpos (XI (XO
    (XI (XO (XO (XO XH))))))) :: []))))), (Zpos (XO (XO (XI (XO (XI (XI (XO
    XH))))))))) :: ((((Zpos (XI (XI (XI (XI (XO (XO XH))))))) :: ((Zpos (XO
    (XO (XO (XO (XI (XO XH))))))) :: ((Zpos (XI (XO (XI (XO (XO (XO
    XH))))))) :: ((Zpos (XO (XI (XI (XI (XO (XO XH))))))) :: [])))), (Zpos
    (XI (XO (XI (XO (XI (XI (XO XH))))))))) :: ((((Zpos (XI (XI (XO (XO (XO
    (XO XH))))))) :: ((Zpos (XO (XO (XI (XI (XO (XO XH))))))) :: ((Zpos (XI
    (XI (XI (XI (XO (XO XH))))))) :: ((Zpos (XI (XI (XO (XO (XI (XO
    XH))))))) :: ((Zpos (XI (XO (XI (XO (XO (XO XH))))))) :: []))))), (Zpos
    (XO (XI (XI (XO (XI (XI (XO XH))))))))) :: ((((Zpos (XI (XO (XO (XI (XO
    (XO XH))))))) :: ((Zpos (XO (XI (XI (XI (XO (XO XH))))))) :: ((Zpos (XO
    (XO (XO (XO (XI (XO XH))))))) :: ((Zpos (XI (XO (XI (XO (XO (XO
    XH))))))) :: ((Zpos (XO (XI (XI (XI (XO (XO XH))))))) :: []))))), (Zpos
    (XI (XI (XI (XO (XI (XI (XO XH))))))))) :: ((((Zpos (XO (XO (XO (XO (XI
    (XO XH))))))) :: ((Zpos (XI (XO (XI (XO (XO (XO XH))))))) :: ((Zpos (XO
    (XI (XI (XI (XO (XO XH))))))) :: []))), (Zpos (XO (XO (XO (XI (XI (XI (XO
    XH))))))))) :: ((((Zpos (XO (XO (XO (XO (XI (XO XH))))))) :: ((Zpos (XO
    (XO (XI (XI (XO (XO XH))))))) :: ((Zpos (XI (XO (XO (XO (XO (XO
    XH))))))) :: ((Zpos (XI (XO (XO (XI (XI (XO XH))))))) :: [])))), (Zpos
    (XI (XO (XO (XI (XI (XI (XO XH))))))))) :: ((((Zpos (XO (XO (XI (XO (XI
    (XO XH))))))) :: ((Zpos (XI (XO (XO (XO (XO (XO XH))))))) :: ((Zpos (XO
    (XI (XO (XO (XO (XO XH))))))) :: []))), (Zpos (XO (XI (XO (XI (XI (XI (XO
    XH))))))))) :: ((((Zpos (XO (XO (XI (XO (XI (XO XH))))))) :: ((Zpos (XI
    (XI (XI (XI (XO (XO XH))))))) :: [])), (Zpos (XI (XI (XO (XI (XI (XI (XO
    XH))))))))) :: ((((Zpos (XI (XI (XO (XO (XI (XO XH))))))) :: ((Zpos (XI
    (XO (XI (XO (XI (XO XH))))))) :: ((Zpos (XO (XI (XO (XO (XO (XO
    XH))))))) :: []))), (Zpos (XO (XO (XI (XI (XI (XI (XO
    XH))))))))) :: ((((Zpos (XO (XI (XI (XO (XO (XO XH))))))) :: ((Zpos (XO
    (XI (XI (XI (XO (XO XH))))))) :: ((Zpos (XI (XI (XO (XO (XO (XO
    XH))))))) :: []))), (Zpos (XI (XO (XI (XI (XI (XI (XO
    XH))))))))) :: ((((Zpos (XI (XI (XO (XO (XI (XO XH))))))) :: ((Zpos (XO
    (XO (XO (XO (XI (XO XH))))))) :: ((Zpos (XI (XI (XO (XO (XO (XO
    XH))))))) :: []))), (Zpos (XO (XI (XI (XI (XI (XI (XO
    XH))))))))) :: ((((Zpos (XI (XO (XI (XO (XI (XO XH))))))) :: ((Zpos (XI
    (XI (XO (XO (XI (XO XH))))))) :: ((Zpos (XI (XO (XO (XI (XO (XO
    XH))))))) :: ((Zpos (XO (XI (XI (XI (XO (XO XH))))))) :: ((Zpos (XI (XI
    (XI (XO (XO (XO XH))))))) :: []))))), (Zpos (XI (XI (XI (XI (XI (XI (XO
    XH))))))))) :: ((((Zpos (XI (XO (XI (XO (XI (XO XH))))))) :: ((Zpos (XI
    (XI (XO (XO (XI (XO XH))))))) :: ((Zpos (XO (XI (XO (XO (XI (XO
    XH))))))) :: []))), (Zpos (XO (XO (XO (XO (XO (XO (XI
    XH))))))))) :: ((((Zpos (XI (XO (XI (XO (XO (XO XH))))))) :: ((Zpos (XO
    (XI (XO (XO (XI (XO XH))))))) :: ((Zpos (XO (XO (XI (XI (XO (XO
    XH))))))) :: []))), (Zpos (XI (XO (XO (XO (XO (XO (XI
    XH))))))))) :: ((((Zpos (XI (XO (XI (XO (XO (XO XH))))))) :: ((Zpos (XO
    (XI (XO (XO (XI (XO XH))))))) :: ((Zpos (XO (XI (XO (XO (XI (XO
    XH))))))) :: []))), (Zpos (XO (XI (XO (XO (XO (XO (XI
    XH))))))))) :: ((((Zpos (XI (XI (XI (XI (XO (XO XH))))))) :: ((Zpos (XO
    (XI (XI (XO (XO (XO XH))))))) :: ((Zpos (XO (XI (XI (XO (XO (XO
    XH))))))) :: []))), (Zpos (XI (XI (XO (XO (XO (XO (XI
    XH))))))))) :: ((((Zpos (XO (XO (XI (XO (XI (XO XH))))))) :: ((Zpos (XO
    (XO (XO (XI (XO (XO XH))))))) :: ((Zpos (XI (XO (XI (XO (XO (XO
    XH))))))) :: ((Zpos (XO (XI (XI (XI (XO (XO XH))))))) :: [])))), (Zpos
    (XO (XO (XI (XO (XO (XO (XI XH))))))))) :: ((((Zpos (XO (XI (XI (XI (XO
    (XO XH))))))) :: ((Zpos (XI (XI (XI (XI (XO (XO XH))))))) :: ((Zpos (XO
    (XO (XI (XO (XI (XO XH))))))) :: []))), (Zpos (XI (XO (XI (XO (XO (XO (XI
    XH))))))))) :: ((((Zpos (XI (XI (XO (XO (XI (XO XH))))))) :: ((Zpos (XO
    (XO (XI (XO (XI (XO XH))))))) :: ((Zpos (XI (XO (XI (XO (XO (XO
    XH))))))) :: ((Zpos (XO (XO (XO (XO (XI (XO XH))))))) :: [])))), (Zpos
    (XO (XI (XI (XO (XO (XO (XI XH))))))))) :: ((((Zpos (XI (XI (XO (XI (XO
    XH)))))) :: []), (Zpos (XI (XI (XI (XO (XO (XO (XI
    XH))))))))) :: ((((Zpos (XI (XO (XI (XI (XO XH)))))) :: []), (Zpos (XO
    (XO (XO (XI (XO (XO (XI XH))))))))) :: ((((Zpos (XO (XI (XO (XI (XO
    XH)))))) :: []), (Zpos (XI (XO (XO (XI (XO (XO (XI
    XH))))))))) :: ((((Zpos (XI (XI (XI (XI (XO XH)))))) :: []), (Zpos (XO
    (XI (XO (XI (XO (XO (XI XH))))))))) :: ((((Zpos (XO (XI (XI (XI (XI (XO
    XH))))))) :: []), (Zpos (XI (XI (XO (XI (XO (XO (XI
    XH))))))))) :: ((((Zpos (XI (XO (XO (XO (XO (XO XH))))))) :: ((Zpos (XO
    (XI (XI (XI (XO (XO XH))))))) :: ((Zpos (XO (XO (XI (XO (XO (XO
    XH))))))) :: []))), (Zpos (XO (XO (XI (XI (XO (XO (XI
    XH))))))))) :: ((((Zpos (XI (XI (XI (XI (XO (XO XH))))))) :: ((Zpos (XO
    (XI (XO (XO (XI (XO XH))))))) :: [])), (Zpos (XI (XO (XI (XI (XO (XO (XI
    XH))))))))) :: ((((Zpos (XO (XO (XO (XI (XI (XO XH))))))) :: ((Zpos (XI
    (XI (XI (XI (XO (XO XH))))))) :: ((Zpos (XO (XI (XO (XO (XI (XO
    XH))))))) :: []))), (Zpos (XO (XI (XI (XI (XO (XO (XI
    XH))))))))) :: ((((Zpos (XI (XO (XI (XO (XO (XO XH))))))) :: ((Zpos (XI
    (XO (XO (XO (XI (XO XH))))))) :: ((Zpos (XO (XI (XI (XO (XI (XO
    XH))))))) :: []))), (Zpos (XI (XI (XI (XI (XO (XO (XI
    XH))))))))) :: ((((Zpos (XI (XO (XO (XI (XO (XO XH))))))) :: ((Zpos (XI
    (XO (XI (XI (XO (XO XH))))))) :: ((Zpos (XO (XO (XO (XO (XI (XO
    XH))))))) :: []))), (Zpos (XO (XO (XO (XO (XI (XO (XI
    XH))))))))) :: ((((Zpos (XI (XO (XI (XI (XO (XO XH))))))) :: ((Zpos (XI
    (XI (XI (XI (XO (XO XH))))))) :: ((Zpos (XO (XO (XI (XO (XO (XO
    XH))))))) :: []))), (Zpos (XI (XO (XO (XO (XI (XO (XI
    XH))))))))) :: ((((Zpos (XO (XI (XI (XI (XI XH)))))) :: []), (Zpos (XI
    (XI (XO (XO (XI (XO (XI XH))))))))) :: ((((Zpos (XI (XO (XI (XI (XI
    XH)))))) :: []), (Zpos (XO (XO (XI (XO (XI (XO (XI
    XH))))))))) :: ((((Zpos (XO (XO (XI (XI (XI XH)))))) :: []), (Zpos (XI
    (XO (XI (XO (XI (XO (XI XH))))))))) :: ((((Zpos (XO (XO (XI (XO (XO (XO
    XH))))))) :: ((Zpos (XI (XI (XO (XO (XI (XO XH))))))) :: ((Zpos (XI (XI
    (XO (XI (XO (XO XH))))))) :: ((Zpos (XI (XO (XO (XI (XO (XO
    XH))))))) :: ((Zpos (XO (XI (XI (XI (XO (XO XH))))))) :: []))))), (Zpos
    (XO (XI (XI (XO (XI (XO (XI XH))))))))) :: ((((Zpos (XO (XO (XI (XO (XO
    (XO XH))))))) :: ((Zpos (XI (XI (XO (XO (XI (XO XH))))))) :: ((Zpos (XI
    (XI (XO (XI (XO (XO XH))))))) :: ((Zpos (XI (XI (XI (XI (XO (XO
    XH))))))) :: ((Zpos (XO (XO (XI (XO (XO XH)))))) :: []))))), (Zpos (XI
    (XI (XI (XO (XI (XO (XI XH))))))))) :: ((((Zpos (XI (XI (XO (XI (XO (XO
    XH))))))) :: ((Zpos (XI (XO (XO (XI (XO (XO XH))))))) :: ((Zpos (XO (XO
    (XI (XI (XO (XO XH))))))) :: ((Zpos (XO (XO (XI (XI (XO (XO
    XH))))))) :: [])))), (Zpos (XO (XO (XO (XI (XI (XO (XI
    XH))))))))) :: ((((Zpos (XO (XI (XI (XI (XO (XO XH))))))) :: ((Zpos (XI
    (XO (XO (XO (XO (XO XH))))))) :: ((Zpos (XI (XO (XI (XI (XO (XO
    XH))))))) :: ((Zpos (XI (XO (XI (XO (XO (XO XH))))))) :: [])))), (Zpos
    (XI (XO (XO (XI (XI (XO (XI XH))))))))) :: ((((Zpos (XO (XI (XI (XO (XO
    (XO XH))))))) :: ((Zpos (XI (XO (XO (XI (XO (XO XH))))))) :: ((Zpos (XI
    (XO (XI (XO (XO (XO XH))))))) :: ((Zpos (XO (XO (XI (XI (XO (XO
    XH))))))) :: ((Zpos (XO (XO (XI (XO (XO (XO XH))))))) :: []))))), (Zpos
    (XO (XI (XO (XI (XI (XO (XI XH))))))))) :: ((((Zpos (XO (XO (XI (XI (XO
    (XO XH))))))) :: ((Zpos (XI (XI (XO (XO (XI (XO XH))))))) :: ((Zpos (XI
    (XO (XI (XO (XO (XO XH))))))) :: ((Zpos (XO (XO (XI (XO (XI (XO
    XH))))))) :: [])))), (Zpos (XI (XI (XO (XI (XI (XO (XI
    XH))))))))) :: ((((Zpos (XO (XI (XO (XO (XI (XO XH))))))) :: ((Zpos (XI
    (XI (XO (XO (XI (XO XH))))))) :: ((Zpos (XI (XO (XI (XO (XO (XO
    XH))))))) :: ((Zpos (XO (XO (XI (XO (XI (XO XH))))))) :: [])))), (Zpos
    (XO (XO (XI (XI (XI (XO (XI XH))))))))) :: ((((Zpos (XO (XO (XO (XO (XI
    (XO XH))))))) :: ((Zpos (XI (XO (XI (XO (XI (XO XH))))))) :: ((Zpos (XO
    (XO (XI (XO (XI (XO XH))))))) :: []))), (Zpos (XI (XO (XI (XI (XI (XO (XI
    XH))))))))) :: ((((Zpos (XI (XI (XI (XO (XO (XO XH))))))) :: ((Zpos (XI
    (XO (XI (XO (XO (XO XH))))))) :: ((Zpos (XO (XO (XI (XO (XI (XO
    XH))))))) :: []))), (Zpos (XO (XI (XI (XI (XI (XO (XI
    XH))))))))) :: ((((Zpos (XO (XI (XI (XO (XI (XO XH))))))) :: ((Zpos (XI
    (XO (XI (XO (XO (XO XH))))))) :: ((Zpos (XO (XI (XO (XO (XI (XO
    XH))))))) :: ((Zpos (XI (XO (XO (XI (XO (XO XH))))))) :: ((Zpos (XO (XI
    (XI (XO (XO (XO XH))))))) :: ((Zpos (XI (XO (XO (XI (XI (XO
    XH))))))) :: [])))))), (Zpos (XI (XI (XI (XI (XI (XO (XI
    XH))))))))) :: ((((Zpos (XO (XO (XI (XO (XO (XO XH))))))) :: ((Zpos (XI
    (XO (XI (XO (XO (XO XH))))))) :: ((Zpos (XO (XI (XI (XO (XI (XO
    XH))))))) :: ((Zpos (XI (XO (XO (XI (XO (XO XH))))))) :: ((Zpos (XI (XI
    (XO (XO (XO (XO XH))))))) :: ((Zpos (XI (XO (XI (XO (XO (XO
    XH))))))) :: [])))))), (Zpos (XO (XO (XO (XO (XO (XI (XI
    XH))))))))) :: ((((Zpos (XO (XO (XI (XO (XO (XO XH))))))) :: ((Zpos (XI
    (XO (XO (XI (XO (XO XH))))))) :: ((Zpos (XO (XI (XO (XO (XI (XO
    XH))))))) :: []))), (Zpos (XI (XO (XO (XO (XO (XI (XI
    XH))))))))) :: ((((Zpos (XO (XI (XI (XO (XO (XO XH))))))) :: ((Zpos (XI
    (XO (XO (XI (XO (XO XH))))))) :: ((Zpos (XO (XO (XI (XI (XO (XO
    XH))))))) :: ((Zpos (XI (XO (XI (XO (XO (XO XH))))))) :: ((Zpos (XI (XI
    (XO (XO (XI (XO XH))))))) :: []))))), (Zpos (XO (XI (XO (XO (XO (XI (XI
    XH))))))))) :: ((((Zpos (XI (XI (XI (XO (XI (XO XH))))))) :: ((Zpos (XO
    (XI (XO (XO (XI (XO XH))))))) :: ((Zpos (XI (XO (XO (XI (XO (XO
    XH))))))) :: ((Zpos (XO (XO (XI (XO (XI (XO XH))))))) :: ((Zpos (XI (XO
    (XI (XO (XO (XO XH))))))) :: []))))), (Zpos (XI (XI (XO (XO (XO (XI (XI
    XH))))))))) :: ((((Zpos (XI (XO (XI (XO (XI (XO XH))))))) :: ((Zpos (XO
    (XI (XI (XI (XO (XO XH))))))) :: ((Zpos (XO (XO (XI (XI (XO (XO
    XH))))))) :: ((Zpos (XI (XI (XI (XI (XO (XO XH))))))) :: ((Zpos (XI (XO
    (XO (XO (XO (XO XH))))))) :: ((Zpos (XO (XO (XI (XO (XO (XO
    XH))))))) :: [])))))), (Zpos (XO (XO (XI (XO (XO (XI (XI
    XH))))))))) :: ((((Zpos (XO (XI (XO (XO (XO (XO XH))))))) :: ((Zpos (XI
    (XO (XO (XO (XO (XO XH))))))) :: ((Zpos (XI (XI (XO (XO (XO (XO
    XH))))))) :: ((Zpos (XI (XI (XO (XI (XO (XO XH))))))) :: ((Zpos (XI (XO
    (XI (XO (XI (XO XH))))))) :: ((Zpos (XO (XO (XO (XO (XI (XO
    XH))))))) :: [])))))), (Zpos (XI (XO (XI (XO (XO (XI (XI
    XH))))))))) :: ((((Zpos (XI (XI (XO (XO (XO (XO XH))))))) :: ((Zpos (XI
    (XI (XI (XI (XO (XO XH))))))) :: ((Zpos (XO (XO (XO (XO (XI (XO
    XH))))))) :: ((Zpos (XI (XO (XO (XI (XI (XO XH))))))) :: [])))), (Zpos
    (XO (XI (XI (XO (XO (XI (XI XH))))))))) :: ((((Zpos (XI (XI (XO (XO (XO
    (XO XH))))))) :: ((Zpos (XI (XO (XO (XI (XO (XO XH))))))) :: ((Zpos (XO
    (XI (XO (XO (XI (XO XH))))))) :: ((Zpos (XI (XI (XO (XO (XO (XO
    XH))))))) :: ((Zpos (XO (XO (XI (XI (XO (XO XH))))))) :: ((Zpos (XI (XO
    (XI (XO (XO (XO XH))))))) :: [])))))), (Zpos (XI (XI (XI (XO (XO (XI (XI
    XH))))))))) :: ((((Zpos (XO (XO (XO (XO (XI (XO XH))))))) :: ((Zpos (XI
    (XO (XO (XO (XO (XO XH))))))) :: ((Zpos (XI (XO (XO (XI (XO (XO
    XH))))))) :: ((Zpos (XO (XI (XI (XI (XO (XO XH))))))) :: ((Zpos (XO (XO
    (XI (XO (XI (XO XH))))))) :: []))))), (Zpos (XO (XO (XO (XI (XO (XI (XI
    XH))))))))) :: ((((Zpos (XO (XO (XI (XO (XO (XO XH))))))) :: ((Zpos (XO
    (XI (XO (XO (XI (XO XH))))))) :: ((Zpos (XI (XO (XO (XO (XO (XO
    XH))))))) :: ((Zpos (XI (XI (XI (XO (XI (XO XH))))))) :: [])))), (Zpos
    (XI (XO (XO (XI (XO (XI (XI XH))))))))) :: ((((Zpos (XO (XI (XO (XO (XI
    (XO XH))))))) :: ((Zpos (XI (XO (XI (XO (XO (XO XH))))))) :: ((Zpos (XO
    (XI (XI (XI (XO (XO XH))))))) :: ((Zpos (XI (XO (XI (XO (XI (XO
    XH))))))) :: ((Zpos (XI (XO (XI (XI (XO (XO XH))))))) :: []))))), (Zpos
    (XO (XI (XO (XI (XO (XI (XI XH))))))))) :: ((((Zpos (XI (XI (XO (XO (XI
    (XO XH))))))) :: ((Zpos (XI (XI (XI (XO (XI (XO XH))))))) :: ((Zpos (XI
    (XO (XO (XO (XO (XO XH))))))) :: ((Zpos (XO (XO (XO (XO (XI (XO
    XH))))))) :: [])))), (Zpos (XI (XI (XO (XI (XO (XI (XI
    XH))))))))) :: ((((Zpos (XI (XI (XO (XO (XI (XO XH))))))) :: ((Zpos (XI
    (XI (XI (XO (XO (XO XH))))))) :: ((Zpos (XO (XI (XI (XI (XO (XO
    XH))))))) :: []))), (Zpos (XO (XO (XO (XO (XO (XO (XO (XI (XI (XI (XI (XI
    (XI (XI (XI XH))))))))))))))))) :: ((((Zpos (XI (XO (XO (XI (XO (XO
    XH))))))) :: ((Zpos (XO (XI (XI (XI (XO (XO XH))))))) :: ((Zpos (XO (XO
    (XI (XO (XI (XO XH))))))) :: []))), (Zpos (XI (XO (XO (XO (XO (XO (XO (XI
    (XI (XI (XI (XI (XI (XI (XI XH))))))))))))))))) :: ((((Zpos (XI (XO (XO
    (XO (XO (XO XH))))))) :: ((Zpos (XO (XO (XO (XO (XI (XO
    XH))))))) :: ((Zpos (XI (XI (XO (XO (XI (XO XH))))))) :: []))), (Zpos (XO
    (XI (XO (XO (XO (XO (XO (XI (XI (XI (XI (XI (XI (XI (XI
    XH))))))))))))))))) :: ((((Zpos (XO (XI (XI (XO (XO (XO
    XH))))))) :: ((Zpos (XO (XI (XO (XO (XI (XO XH))))))) :: ((Zpos (XI (XO
    (XI (XO (XO (XO XH))))))) :: []))), (Zpos (XI (XI (XO (XO (XO (XO (XO (XI
    (XI (XI (XI (XI (XI (XI (XI XH))))))))))))))))) :: ((((Zpos (XI (XI (XO
    (XO (XI (XO XH))))))) :: ((Zpos (XI (XO (XO (XO (XI (XO
    XH))))))) :: ((Zpos (XO (XO (XI (XI (XO (XO XH))))))) :: []))), (Zpos (XO
    (XO (XI (XO (XO (XO (XO (XI (XI (XI (XI (XI (XI (XI (XI
    XH))))))))))))))))) :: ((((Zpos (XO (XO (XI (XI (XO (XO
    XH))))))) :: ((Zpos (XI (XI (XI (XI (XO (XO XH))))))) :: ((Zpos (XI (XI
    (XI (XO (XO (XO XH))))))) :: []))), (Zpos (XI (XO (XI (XO (XO (XO (XO (XI
    (XI (XI (XI (XI (XI (XI (XI XH))))))))))))))))) :: ((((Zpos (XI (XO (XI
    (XO (XO (XO XH))))))) :: ((Zpos (XO (XO (XO (XI (XI (XO
    XH))))))) :: ((Zpos (XO (XO (XO (XO (XI (XO XH))))))) :: []))), (Zpos (XO
    (XI (XI (XO (XO (XO (XO (XI (XI (XI (XI (XI (XI (XI (XI
    XH))))))))))))))))) :: ((((Zpos (XI (XI (XO (XO (XO (XO
    XH))))))) :: ((Zpos (XI (XI (XI (XI (XO (XO XH))))))) :: ((Zpos (XI (XI
    (XO (XO (XI (XO XH))))))) :: []))), (Zpos (XI (XI (XI (XO (XO (XO (XO (XI
    (XI (XI (XI (XI (XI (XI (XI XH))))))))))))))))) :: ((((Zpos (XI (XI (XO
    (XO (XI (XO XH))))))) :: ((Zpos (XI (XO (XO (XI (XO (XO
    XH))))))) :: ((Zpos (XO (XI (XI (XI (XO (XO XH))))))) :: []))), (Zpos (XO
    (XO (XO (XI (XO (XO (XO (XI (XI (XI (XI (XI (XI (XI (XI
    XH))))))))))))))))) :: ((((Zpos (XO (XO (XI (XO (XI (XO
    XH))))))) :: ((Zpos (XI (XO (XO (XO (XO (XO XH))))))) :: ((Zpos (XO (XI
    (XI (XI (XO (XO XH))))))) :: []))), (Zpos (XI (XO (XO (XI (XO (XO (XO (XI
    (XI (XI (XI (XI (XI (XI (XI XH))))))))))))))))) :: ((((Zpos (XO (XO (XO
    (XO (XI (XO XH))))))) :: ((Zpos (XI (XO (XI (XO (XO (XO
    XH))))))) :: ((Zpos (XI (XO (XI (XO (XO (XO XH))))))) :: ((Zpos (XI (XI
    (XO (XI (XO (XO XH))))))) :: [])))), (Zpos (XO (XI (XO (XI (XO (XO (XO
    (XI (XI (XI (XI (XI (XI (XI (XI XH))))))))))))))))) :: ((((Zpos (XO (XO
    (XI (XI (XO (XO XH))))))) :: ((Zpos (XI (XO (XI (XO (XO (XO
    XH))))))) :: ((Zpos (XO (XI (XI (XI (XO (XO XH))))))) :: []))), (Zpos (XI
    (XI (XO (XI (XO (XO (XO (XI (XI (XI (XI (XI (XI (XI (XI
    XH))))))))))))))))) :: ((((Zpos (XI (XI (XO (XO (XI (XO
    XH))))))) :: ((Zpos (XO (XO (XI (XO (XI (XO XH))))))) :: ((Zpos (XO (XI
    (XO (XO (XI (XO XH))))))) :: ((Zpos (XO (XO (XI (XO (XO
    XH)))))) :: [])))), (Zpos (XO (XO (XI (XI (XO (XO (XO (XI (XI (XI (XI (XI
    (XI (XI (XI XH))))))))))))))))) :: ((((Zpos (XO (XI (XI (XO (XI (XO
    XH))))))) :: ((Zpos (XI (XO (XO (XO (XO (XO XH))))))) :: ((Zpos (XO (XO
    (XI (XI (XO (XO XH))))))) :: []))), (Zpos (XI (XO (XI (XI (XO (XO (XO (XI
    (XI (XI (XI (XI (XI (XI (XI XH))))))))))))))))) :: ((((Zpos (XI (XO (XO
    (XO (XO (XO XH))))))) :: ((Zpos (XI (XI (XO (XO (XI (XO
    XH))))))) :: ((Zpos (XI (XI (XO (XO (XO (XO XH))))))) :: []))), (Zpos (XO
    (XI (XI (XI (XO (XO (XO (XI (XI (XI (XI (XI (XI (XI (XI
    XH))))))))))))))))) :: ((((Zpos (XI (XI (XO (XO (XO (XO
    XH))))))) :: ((Zpos (XO (XO (XO (XI (XO (XO XH))))))) :: ((Zpos (XO (XI
    (XO (XO (XI (XO XH))))))) :: ((Zpos (XO (XO (XI (XO (XO
    XH)))))) :: [])))), (Zpos (XI (XI (XI (XI (XO (XO (XO (XI (XI (XI (XI (XI
    (XI (XI (XI XH))))))))))))))))) :: ((((Zpos (XI (XO (XI (XO (XO (XO
    XH))))))) :: ((Zpos (XI (XI (XI (XI (XO (XO XH))))))) :: ((Zpos (XO (XI
    (XI (XO (XO (XO XH))))))) :: []))), (Zpos (XO (XO (XO (XO (XI (XO (XO (XI
    (XI (XI (XI (XI (XI (XI (XI XH))))))))))))))))) :: ((((Zpos (XI (XI (XO
    (XO (XO (XO XH))))))) :: ((Zpos (XI (XO (XO (XI (XO (XO
    XH))))))) :: ((Zpos (XO (XI (XI (XI (XO (XO XH))))))) :: ((Zpos (XO (XO
    (XI (XO (XI (XO XH))))))) :: [])))), (Zpos (XI (XO (XO (XO (XI (XO (XO
    (XI (XI (XI (XI (XI (XI (XI (XI XH))))))))))))))))) :: ((((Zpos (XI (XI
    (XO (XO (XO (XO XH))))))) :: ((Zpos (XI (XI (XO (XO (XI (XO
    XH))))))) :: ((Zpos (XO (XI (XI (XI (XO (XO XH))))))) :: ((Zpos (XI (XI
    (XI (XO (XO (XO XH))))))) :: [])))), (Zpos (XO (XI (XO (XO (XI (XO (XO
    (XI (XI (XI (XI (XI (XI (XI (XI XH))))))))))))))))) :: ((((Zpos (XI (XI
    (XO (XO (XO (XO XH))))))) :: ((Zpos (XO (XO (XI (XO (XO (XO
    XH))))))) :: ((Zpos (XO (XI (XO (XO (XO (XO XH))))))) :: ((Zpos (XO (XO
    (XI (XI (XO (XO XH))))))) :: [])))), (Zpos (XI (XI (XO (XO (XI (XO (XO
    (XI (XI (XI (XI (XI (XI (XI (XI XH))))))))))))))))) :: ((((Zpos (XO (XI
    (XI (XO (XO (XO XH))))))) :: ((Zpos (XI (XO (XO (XI (XO (XO
    XH))))))) :: ((Zpos (XO (XO (XO (XI (XI (XO XH))))))) :: []))), (Zpos (XO
    (XO (XI (XO (XI (XO (XO (XI (XI (XI (XI (XI (XI (XI (XI
    XH))))))))))))))))) :: ((((Zpos (XO (XO (XO (XI (XO (XO
    XH))))))) :: ((Zpos (XI (XO (XI (XO (XO (XO XH))))))) :: ((Zpos (XO (XO
    (XO (XI (XI (XO XH))))))) :: ((Zpos (XO (XO (XI (XO (XO
    XH)))))) :: [])))), (Zpos (XI (XO (XI (XO (XI (XO (XO (XI (XI (XI (XI (XI
    (XI (XI (XI XH))))))))))))))))) :: ((((Zpos (XI (XI (XI (XI (XO (XO
    XH))))))) :: ((Zpos (XI (XI (XO (XO (XO (XO XH))))))) :: ((Zpos (XO (XO
    (XI (XO (XI (XO XH))))))) :: ((Zpos (XO (XO (XI (XO (XO
    XH)))))) :: [])))), (Zpos (XO (XI (XI (XO (XI (XO (XO (XI (XI (XI (XI (XI
    (XI (XI (XI XH))))))))))))))))) :: ((((Zpos (XI (XI (XO (XO (XI (XO
    XH))))))) :: ((Zpos (XO (XO (XI (XO (XI (XO XH))))))) :: ((Zpos (XI (XO
    (XO (XI (XO (XO XH))))))) :: ((Zpos (XI (XI (XO (XO (XO (XO
    XH))))))) :: ((Zpos (XI (XI (XO (XI (XO (XO XH))))))) :: []))))), (Zpos
    (XI (XI (XI (XO (XI (XO (XO (XI (XI (XI (XI (XI (XI (XI (XI
    XH))))))))))))))))) :: ((((Zpos (XI (XI (XO (XO (XI (XO
    XH))))))) :: ((Zpos (XO (XO (XI (XO (XI (XO XH))))))) :: ((Zpos (XO (XI
    (XO (XO (XI (XO XH))))))) :: ((Zpos (XI (XO (XO (XI (XO (XO
    XH))))))) :: ((Zpos (XI (XI (XI (XO (XO (XO XH))))))) :: []))))), (Zpos
    (XO (XO (XO (XI (XI (XO (XO (XI (XI (XI (XI (XI (XI (XI (XI
    XH))))))))))))))))) :: ((((Zpos (XI (XI (XI (XO (XO (XO
    XH))))))) :: ((Zpos (XO (XI (XO (XO (XI (XO XH))))))) :: ((Zpos (XO (XO
    (XI (XO (XO XH)))))) :: []))), (Zpos (XI (XO (XO (XI (XI (XO (XO (XI (XI
    (XI (XI (XI (XI (XI (XI XH))))))))))))))))) :: ((((Zpos (XO (XO (XI (XI
    (XO (XO XH))))))) :: ((Zpos (XI (XO (XI (XO (XO (XO XH))))))) :: ((Zpos
    (XO (XI (XI (XO (XO (XO XH))))))) :: ((Zpos (XO (XO (XI (XO (XI (XO
    XH))))))) :: ((Zpos (XO (XO (XI (XO (XO XH)))))) :: []))))), (Zpos (XO
    (XI (XO (XI (XI (XO (XO (XI (XI (XI (XI (XI (XI (XI (XI
    XH))))))))))))))))) :: ((((Zpos (XO (XI (XO (XO (XI (XO
    XH))))))) :: ((Zpos (XI (XO (XO (XI (XO (XO XH))))))) :: ((Zpos (XI (XI
    (XI (XO (XO (XO XH))))))) :: ((Zpos (XO (XO (XO (XI (XO (XO
    XH))))))) :: ((Zpos (XO (XO (XI (XO (XI (XO XH))))))) :: ((Zpos (XO (XO
    (XI (XO (XO XH)))))) :: [])))))), (Zpos (XI (XI (XO (XI (XI (XO (XO (XI
    (XI (XI (XI (XI (XI (XI (XI XH))))))))))))))))) :: ((((Zpos (XI (XO (XI
    (XI (XO (XO XH))))))) :: ((Zpos (XI (XO (XO (XI (XO (XO
    XH))))))) :: ((Zpos (XO (XO (XI (XO (XO (XO XH))))))) :: ((Zpos (XO (XO
    (XI (XO (XO XH)))))) :: [])))), (Zpos (XO (XO (XI (XI (XI (XO (XO (XI (XI
    (XI (XI (XI (XI (XI (XI XH))))))))))))))))) :: ((((Zpos (XI (XO (XO (XI
    (XO (XO XH))))))) :: ((Zpos (XO (XI (XI (XI (XO (XO XH))))))) :: ((Zpos
    (XI (XI (XO (XO (XI (XO XH))))))) :: ((Zpos (XO (XO (XI (XO (XI (XO
    XH))))))) :: ((Zpos (XO (XI (XO (XO (XI (XO XH))))))) :: []))))), (Zpos
    (XI (XO (XI (XI (XI (XO (XO (XI (XI (XI (XI (XI (XI (XI (XI
    XH))))))))))))))))) :: ((((Zpos (XO (XI (XI (XO (XI (XO
    XH))))))) :: ((Zpos (XI (XO (XO (XO (XO (XO XH))))))) :: ((Zpos (XO (XI
    (XO (XO (XI (XO XH))))))) :: ((Zpos (XO (XO (XO (XO (XI (XO
    XH))))))) :: ((Zpos (XO (XO (XI (XO (XI (XO XH))))))) :: ((Zpos (XO (XI
    (XO (XO (XI (XO XH))))))) :: [])))))), (Zpos (XO (XI (XI (XI (XI (XO (XO
    (XI (XI (XI (XI (XI (XI (XI (XI XH))))))))))))))))) :: ((((Zpos (XO (XI
    (XO (XO (XI (XO XH))))))) :: ((Zpos (XO (XI (XI (XI (XO (XO
    XH))))))) :: ((Zpos (XO (XO (XI (XO (XO (XO XH))))))) :: []))), (Zpos (XI
    (XI (XI (XI (XI (XO (XO (XI (XI (XI (XI (XI (XI (XI (XI
    XH))))))))))))))))) :: ((((Zpos (XI (XO (XO (XI (XO (XO
    XH))))))) :: ((Zpos (XO (XI (XI (XI (XO (XO XH))))))) :: ((Zpos (XI (XI
    (XO (XI (XO (XO XH))))))) :: ((Zpos (XI (XO (XI (XO (XO (XO
    XH))))))) :: ((Zpos (XI (XO (XO (XI (XI (XO XH))))))) :: ((Zpos (XO (XO
    (XI (XO (XO XH)))))) :: [])))))), (Zpos (XO (XO (XO (XO (XO (XI (XO (XI
    (XI (XI (XI (XI (XI (XI (XI XH))))))))))))))))) :: ((((Zpos (XI (XO (XO
    (XI (XO (XO XH))))))) :: ((Zpos (XO (XI (XI (XI (XO (XO
    XH))))))) :: ((Zpos (XO (XO (XO (XO (XI (XO XH))))))) :: ((Zpos (XI (XO
    (XI (XO (XI (XO XH))))))) :: ((Zpos (XO (XO (XI (XO (XI (XO
    XH))))))) :: []))))), (Zpos (XI (XO (XO (XO (XO (XI (XO (XI (XI (XI (XI
    (XI (XI (XI (XI XH))))))))))))))))) :: ((((Zpos (XI (XI (XO (XO (XO (XO
    XH))))))) :: ((Zpos (XI (XI (XO (XO (XI (XO XH))))))) :: ((Zpos (XO (XI
    (XO (XO (XI (XO XH))))))) :: ((Zpos (XO (XO (XI (XI (XO (XO
    XH))))))) :: ((Zpos (XI (XO (XO (XI (XO (XO XH))))))) :: ((Zpos (XO (XI
    (XI (XI (XO (XO XH))))))) :: [])))))), (Zpos (XO (XI (XO (XO (XO (XI (XO
    (XI (XI (XI (XI (XI (XI (XI (XI XH))))))))))))))))) :: ((((Zpos (XO (XO
    (XO (XO (XI (XO XH))))))) :: ((Zpos (XI (XI (XI (XI (XO (XO
    XH))))))) :: ((Zpos (XI (XO (XO (XI (XO (XO XH))))))) :: ((Zpos (XO (XI
    (XI (XI (XO (XO XH))))))) :: ((Zpos (XO (XO (XI (XO (XI (XO
    XH))))))) :: []))))), (Zpos (XI (XI (XO (XO (XO (XI (XO (XI (XI (XI (XI
    (XI (XI (XI (XI XH))))))))))))))))) :: ((((Zpos (XI (XI (XO (XO (XI (XO
    XH))))))) :: ((Zpos (XI (XI (XO (XO (XO (XO XH))))))) :: ((Zpos (XO (XI
    (XO (XO (XI (XO XH))))))) :: ((Zpos (XI (XO (XI (XO (XO (XO
    XH))))))) :: ((Zpos (XI (XO (XI (XO (XO (XO XH))))))) :: ((Zpos (XO (XI
    (XI (XI (XO (XO XH))))))) :: [])))))), (Zpos (XO (XO (XI (XO (XO (XI (XO
    (XI (XI (XI (XI (XI (XI (XI (XI XH))))))))))))))))) :: ((((Zpos (XO (XO
    (XO (XO (XI (XO XH))))))) :: ((Zpos (XI (XI (XI (XI (XO (XO
    XH))))))) :: ((Zpos (XI (XI (XO (XO (XI (XO XH))))))) :: []))), (Zpos (XI
    (XO (XI (XO (XO (XI (XO (XI (XI (XI (XI (XI (XI (XI (XI
    XH))))))))))))))))) :: ((((Zpos (XO (XO (XO (XO (XI (XO
    XH))))))) :: ((Zpos (XO (XO (XI (XO (XI (XO XH))))))) :: ((Zpos (XO (XI
    (XO (XO (XI (XO XH))))))) :: ((Zpos (XI (XO (XO (XI (XO (XO
    XH))))))) :: ((Zpos (XI (XI (XI (XO (XO (XO XH))))))) :: []))))), (Zpos
    (XO (XI (XI (XO (XO (XI (XO (XI (XI (XI (XI (XI (XI (XI (XI
    XH))))))))))))))))) :: ((((Zpos (XO (XO (XI (XO (XO (XO
    XH))))))) :: ((Zpos (XI (XI (XO (XO (XI (XO XH))))))) :: ((Zpos (XI (XI
    (XO (XI (XO (XO XH))))))) :: ((Zpos (XO (XI (XI (XO (XO (XO
    XH))))))) :: [])))), (Zpos (XI (XI (XI (XO (XO (XI (XO (XI (XI (XI (XI
    (XI (XI (XI (XI XH))))))))))))))))) :: ((((Zpos (XI (XI (XO (XO (XO (XO
    XH))))))) :: ((Zpos (XO (XI (XI (XO (XI (XO XH))))))) :: ((Zpos (XI (XO
    (XO (XI (XO (XO XH))))))) :: []))), (Zpos (XO (XO (XO (XI (XO (XI (XO (XI
    (XI (XI (XI (XI (XI (XI (XI XH))))))))))))))))) :: ((((Zpos (XI (XI (XO
    (XO (XO (XO XH))))))) :: ((Zpos (XO (XI (XI (XO (XI (XO
    XH))))))) :: ((Zpos (XI (XI (XO (XO (XI (XO XH))))))) :: []))), (Zpos (XI
    (XO (XO (XI (XO (XI (XO (XI (XI (XI (XI (XI (XI (XI (XI
    XH))))))))))))))))) :: ((((Zpos (XI (XO (XI (XI (XO (XO
    XH))))))) :: ((Zpos (XI (XI (XO (XI (XO (XO XH))))))) :: ((Zpos (XI (XO
    (XO (XI (XO (XO XH))))))) :: ((Zpos (XO (XO (XI (XO (XO
    XH)))))) :: [])))), (Zpos (XI (XI (XO (XI (XO (XI (XO (XI (XI (XI (XI (XI
    (XI (XI (XI XH))))))))))))))))) :: ((((Zpos (XI (XO (XI (XI (XO (XO
    XH))))))) :: ((Zpos (XI (XI (XO (XI (XO (XO XH))))))) :: ((Zpos (XI (XI
    (XO (XO (XI (XO XH))))))) :: ((Zpos (XO (XO (XI (XO (XO
    XH)))))) :: [])))), (Zpos (XO (XO (XI (XI (XO (XI (XO (XI (XI (XI (XI (XI
    (XI (XI (XI XH))))))))))))))))) :: ((((Zpos (XO (XO (XI (XI (XO (XO
    XH))))))) :: ((Zpos (XI (XI (XI (XI (XO (XO XH))))))) :: ((Zpos (XI (XI
    (XO (XO (XO (XO XH))))))) :: []))), (Zpos (XO (XI (XI (XI (XO (XI (XO (XI
    (XI (XI (XI (XI (XI (XI (XI XH))))))))))))))))) :: ((((Zpos (XO (XO (XI
    (XI (XO (XO XH))))))) :: ((Zpos (XI (XI (XI (XI (XO (XO
    XH))))))) :: ((Zpos (XO (XI (XI (XO (XO (XO XH))))))) :: []))), (Zpos (XI
    (XI (XI (XI (XO (XI (XO (XI (XI (XI (XI (XI (XI (XI (XI
    XH))))))))))))))))) :: ((((Zpos (XI (XI (XO (XO (XI (XO
    XH))))))) :: ((Zpos (XO (XO (XO (XO (XI (XO XH))))))) :: ((Zpos (XI (XO
    (XO (XO (XO (XO XH))))))) :: ((Zpos (XI (XI (XO (XO (XO (XO
    XH))))))) :: ((Zpos (XI (XO (XI (XO (XO (XO XH))))))) :: ((Zpos (XO (XO
    (XI (XO (XO XH)))))) :: [])))))), (Zpos (XO (XO (XO (XO (XI (XI (XO (XI
    (XI (XI (XI (XI (XI (XI (XI XH))))))))))))))))) :: ((((Zpos (XI (XI (XO
    (XO (XI (XO XH))))))) :: ((Zpos (XO (XO (XI (XO (XI (XO
    XH))))))) :: ((Zpos (XO (XI (XO (XO (XI (XO XH))))))) :: ((Zpos (XI (XO
    (XO (XI (XO (XO XH))))))) :: ((Zpos (XO (XI (XI (XI (XO (XO
    XH))))))) :: ((Zpos (XI (XI (XI (XO (XO (XO XH))))))) :: ((Zpos (XO (XO
    (XI (XO (XO XH)))))) :: []))))))), (Zpos (XI (XO (XO (XO (XI (XI (XO (XI
    (XI (XI (XI (XI (XI (XI (XI XH))))))))))))))))) :: ((((Zpos (XO (XO (XI
    (XO (XO (XO XH))))))) :: ((Zpos (XI (XI (XO (XO (XI (XO
    XH))))))) :: ((Zpos (XI (XI (XO (XI (XO (XO XH))))))) :: ((Zpos (XI (XO
    (XO (XI (XO (XO XH))))))) :: ((Zpos (XO (XO (XI (XO (XO
    XH)))))) :: []))))), (Zpos (XO (XI (XO (XO (XI (XI (XO (XI (XI (XI (XI
    (XI (XI (XI (XI
    XH))))))))))))))))) :: [])))))))))))))))))))))))))))))))))))))))))))))))))))))))))))))))))))))))))))))))))))))))))))))))))))))))))))))))))))))))))))))))))))))))))))))))))))))))

(** val vocab_code : z list -> (z list * z) list -> z option **)

let rec vocab_code k = function
| [] -> None
| p :: r ->
  let (k', v) = p in if zeqb_list k k' then Some v else vocab_code k r

(** val vocab_word : z -> (z list * z) list -> z list option **)

let rec vocab_word v = function
| [] -> None
| p :: r -> let (k, v') = p in if Z.eqb v v' then Some k else vocab_word v r

(** val code_of : z list -> z option **)

let code_of k =
  vocab_code k mo5_vocabulary

(** val word_of : z -> z list option **)

let word_of v =
  vocab_word v mo5_vocabulary

(** val u16 : z -> z list **)

let u16 n0 =
  (Z.modulo (Z.div n0 (Zpos (XO (XO (XO (XO (XO (XO (XO (XO XH))))))))))
    (Zpos (XO (XO (XO (XO (XO (XO (XO (XO XH)))))))))) :: ((Z.modulo n0 (Zpos
                                                             (XO (XO (XO (XO
                                                             (XO (XO (XO (XO
                                                             XH)))))))))) :: [])

(** val code_bytes : z -> z list **)

let code_bytes v =
  if Z.ltb v (Zpos (XO (XO (XO (XO (XO (XO (XO (XO XH)))))))))
  then v :: []
  else u16 v

(** val else_word : z list **)

let else_word =
  (Zpos (XI (XO (XI (XO (XO (XO XH))))))) :: ((Zpos (XO (XO (XI (XI (XO (XO
    XH))))))) :: ((Zpos (XI (XI (XO (XO (XI (XO XH))))))) :: ((Zpos (XI (XO
    (XI (XO (XO (XO XH))))))) :: [])))

(** val word_bytes : z list -> z -> z list **)

let word_bytes k v =
  app
    (if zeqb_list k else_word
     then (Zpos (XO (XI (XO (XI (XI XH)))))) :: []
     else []) (code_bytes v)

(** val expand : nat -> z list -> z list option **)

let rec expand fuel bs =
  match fuel with
  | O -> None
  | S fuel' ->
    (match bs with
     | [] -> Some []
     | b :: r ->
       (match b with
        | Zpos p ->
          (match p with
           | XI p0 ->
             (match p0 with
              | XI p1 ->
                (match p1 with
                 | XI p2 ->
                   (match p2 with
                    | XI p3 ->
                      (match p3 with
                       | XI p4 ->
                         (match p4 with
                          | XI p5 ->
                            (match p5 with
                             | XI p6 ->
                               (match p6 with
                                | XH ->
                                  (match r with
                                   | [] ->
                                     if Z.ltb b (Zpos (XO (XO (XO (XO (XO (XO
                                          (XO XH))))))))
                                     then (match expand fuel' r with
                                           | Some t -> Some (b :: t)
                                           | None -> None)
                                     else (match word_of b with
                                           | Some w ->
                                             (match expand fuel' r with
                                              | Some t -> Some (app w t)
                                              | None -> None)
                                           | None -> None)
                                   | x :: r0 ->
                                     (match word_of
                                              (Z.add (Zpos (XO (XO (XO (XO
                                                (XO (XO (XO (XO (XI (XI (XI
                                                (XI (XI (XI (XI
                                                XH)))))))))))))))) x) with
                                      | Some w ->
                                        (match expand fuel' r0 with
                                         | Some t -> Some (app w t)
                                         | None -> None)
                                      | None -> None))
                                | _ ->
                                  if Z.ltb b (Zpos (XO (XO (XO (XO (XO (XO
                                       (XO XH))))))))
                                  then (match expand fuel' r with
                                        | Some t -> Some (b :: t)
                                        | None -> None)
                                  else (match word_of b with
                                        | Some w ->
                                          (match expand fuel' r with
                                           | Some t -> Some (app w t)
                                           | None -> None)
                                        | None -> None))
                             | _ ->
                               if Z.ltb b (Zpos (XO (XO (XO (XO (XO (XO (XO
                                    XH))))))))
                               then (match expand fuel' r with
                                     | Some t -> Some (b :: t)
                                     | None -> None)
                               else (match word_of b with
                                     | Some w ->
                                       (match expand fuel' r with
                                        | Some t -> Some (app w t)
                                        | None -> None)
                                     | None -> None))
                          | _ ->
                            if Z.ltb b (Zpos (XO (XO (XO (XO (XO (XO (XO
                                 XH))))))))
                            then (match expand fuel' r with
                                  | Some t -> Some (b :: t)
                                  | None -> None)
                            else (match word_of b with
                                  | Some w ->
                                    (match expand fuel' r with
                                     | Some t -> Some (app w t)
                                     | None -> None)
                                  | None -> None))
                       | _ ->
                         if Z.ltb b (Zpos (XO (XO (XO (XO (XO (XO (XO
                              XH))))))))
                         then (match expand fuel' r with
                               | Some t -> Some (b :: t)
                               | None -> None)
                         else (match word_of b with
                               | Some w ->
                                 (match expand fuel' r with
                                  | Some t -> Some (app w t)
                                  | None -> None)
                               | None -> None))
                    | _ ->
                      if Z.ltb b (Zpos (XO (XO (XO (XO (XO (XO (XO XH))))))))
                      then (match expand fuel' r with
                            | Some t -> Some (b :: t)
                            | None -> None)
                      else (match word_of b with
                            | Some w ->
                              (match expand fuel' r with
                               | Some t -> Some (app w t)
                               | None -> None)
                            | None -> None))
                 | _ ->
                   if Z.ltb b (Zpos (XO (XO (XO (XO (XO (XO (XO XH))))))))
                   then (match expand fuel' r with
                         | Some t -> Some (b :: t)
                         | None -> None)
                   else (match word_of b with
                         | Some w ->
                           (match expand fuel' r with
                            | Some t -> Some (app w t)
                            | None -> None)
                         | None -> None))
              | _ ->
                if Z.ltb b (Zpos (XO (XO (XO (XO (XO (XO (XO XH))))))))
                then (match expand fuel' r with
                      | Some t -> Some (b :: t)
                      | None -> None)
                else (match word_of b with
                      | Some w ->
                        (match expand fuel' r with
                         | Some t -> Some (app w t)
                         | None -> None)
                      | None -> None))
           | XO p0 ->
             (match p0 with
              | XI p1 ->
                (match p1 with
                 | XO p2 ->
                   (match p2 with
                    | XI p3 ->
                      (match p3 with
                       | XI p4 ->
                         (match p4 with
                          | XH ->
                            (match r with
                             | [] ->
                               if Z.ltb b (Zpos (XO (XO (XO (XO (XO (XO (XO
                                    XH))))))))
                               then (match expand fuel' r with
                                     | Some t -> Some (b :: t)
                                     | None -> None)
                               else (match word_of b with
                                     | Some w ->
                                       (match expand fuel' r with
                                        | Some t -> Some (app w t)
                                        | None -> None)
                                     | None -> None)
                             | z0 :: r0 ->
                               (match z0 with
                                | Zpos p5 ->
                                  (match p5 with
                                   | XI p6 ->
                                     (match p6 with
                                      | XI p7 ->
                                        (match p7 with
                                         | XI p8 ->
                                           (match p8 with
                                            | XI p9 ->
                                              (match p9 with
                                               | XO p10 ->
                                                 (match p10 with
                                                  | XO p11 ->
                                                    (match p11 with
                                                     | XO p12 ->
                                                       (match p12 with
                                                        | XH ->
                                                          (match expand fuel'
                                                                   r0 with
                                                           | Some t ->
                                                             Some
                                                               (app else_word
                                                                 t)
                                                           | None -> None)
                                                        | _ ->
                                                          if Z.ltb b (Zpos
                                                               (XO (XO (XO
                                                               (XO (XO (XO
                                                               (XO XH))))))))
                                                          then (match 
                                                                expand fuel' r with
                                                                | Some t ->
                                                                  Some
                                                                    (b :: t)
                                                                | None -> None)
                                                          else (match 
                                                                word_of b with
                                                                | Some w ->
                                                                  (match 
                                                                   expand
                                                                    fuel' r with
                                                                   | Some t ->
                                                                    Some
                                                                    (app w t)
                                                                   | None ->
                                                                    None)
                                                                | None -> None))
                                                     | _ ->
                                                       if Z.ltb b (Zpos (XO
                                                            (XO (XO (XO (XO
                                                            (XO (XO XH))))))))
                                                       then (match expand
                                                                    fuel' r with
                                                             | Some t ->
                                                               Some (b :: t)
                                                             | None -> None)
                                                       else (match word_of b with
                                                             | Some w ->
                                                               (match 
                                                                expand fuel' r with
                                                                | Some t ->
                                                                  Some
                                                                    (app w t)
                                                                | None -> None)
                                                             | None -> None))
                                                  | _ ->
                                                    if Z.ltb b (Zpos (XO (XO
                                                         (XO (XO (XO (XO (XO
                                                         XH))))))))
                                                    then (match expand fuel' r with
                                                          | Some t ->
                                                            Some (b :: t)
                                                          | None -> None)
                                                    else (match word_of b with
                                                          | Some w ->
                                                            (match expand
                                                                    fuel' r with
                                                             | Some t ->
                                                               Some (app w t)
                                                             | None -> None)
                                                          | None -> None))
                                               | _ ->
                                                 if Z.ltb b (Zpos (XO (XO (XO
                                                      (XO (XO (XO (XO
                                                      XH))))))))
                                                 then (match expand fuel' r with
                                                       | Some t ->
                                                         Some (b :: t)
                                                       | None -> None)
                                                 else (match word_of b with
                                                       | Some w ->
                                                         (match expand fuel' r with
                                                          | Some t ->
                                                            Some (app w t)
                                                          | None -> None)
                                                       | None -> None))
                                            | _ ->
                                              if Z.ltb b (Zpos (XO (XO (XO
                                                   (XO (XO (XO (XO XH))))))))
                                              then (match expand fuel' r with
                                                    | Some t -> Some (b :: t)
                                                    | None -> None)
                                              else (match word_of b with
                                                    | Some w ->
                                                      (match expand fuel' r with
                                                       | Some t ->
                                                         Some (app w t)
                                                       | None -> None)
                                                    | None -> None))
                                         | _ ->
                                           if Z.ltb b (Zpos (XO (XO (XO (XO
                                                (XO (XO (XO XH))))))))
                                           then (match expand fuel' r with
                                                 | Some t -> Some (b :: t)
                                                 | None -> None)
                                           else (match word_of b with
                                                 | Some w ->
                                                   (match expand fuel' r with
                                                    | Some t -> Some (app w t)
                                                    | None -> None)
                                                 | None -> None))
                                      | _ ->
                                        if Z.ltb b (Zpos (XO (XO (XO (XO (XO
                                             (XO (XO XH))))))))
                                        then (match expand fuel' r with
                                              | Some t -> Some (b :: t)
                                              | None -> None)
                                        else (match word_of b with
                                              | Some w ->
                                                (match expand fuel' r with
                                                 | Some t -> Some (app w t)
                                                 | None -> None)
                                              | None -> None))
                                   | _ ->
                                     if Z.ltb b (Zpos (XO (XO (XO (XO (XO (XO
                                          (XO XH))))))))
                                     then (match expand fuel' r with
                                           | Some t -> Some (b :: t)
                                           | None -> None)
                                     else (match word_of b with
                                           | Some w ->
                                             (match expand fuel' r with
                                              | Some t -> Some (app w t)
                                              | None -> None)
                                           | None -> None))
                                | _ ->
                                  if Z.ltb b (Zpos (XO (XO (XO (XO (XO (XO
                                       (XO XH))))))))
                                  then (match expand fuel' r with
                                        | Some t -> Some (b :: t)
                                        | None -> None)
                                  else (match word_of b with
                                        | Some w ->
                                          (match expand fuel' r with
                                           | Some t -> Some (app w t)
                                           | None -> None)
                                        | None -> None)))
                          | _ ->
                            if Z.ltb b (Zpos (XO (XO (XO (XO (XO (XO (XO
                                 XH))))))))
                            then (match expand fuel' r with
                                  | Some t -> Some (b :: t)
                                  | None -> None)
                            else (match word_of b with
                                  | Some w ->
                                    (match expand fuel' r with
                                     | Some t -> Some (app w t)
                                     | None -> None)
                                  | None -> None))
                       | _ ->
                         if Z.ltb b (Zpos (XO (XO (XO (XO (XO (XO (XO
                              XH))))))))
                         then (match expand fuel' r with
                               | Some t -> Some (b :: t)
                               | None -> None)
                         else (match word_of b with
                               | Some w ->
                                 (match expand fuel' r with
                                  | Some t -> Some (app w t)
                                  | None -> None)
                               | None -> None))
                    | _ ->
                      if Z.ltb b (Zpos (XO (XO (XO (XO (XO (XO (XO XH))))))))
                      then (match expand fuel' r with
                            | Some t -> Some (b :: t)
                            | None -> None)
                      else (match word_of b with
                            | Some w ->
                              (match expand fuel' r with
                               | Some t -> Some (app w t)
                               | None -> None)
                            | None -> None))
                 | _ ->
                   if Z.ltb b (Zpos (XO (XO (XO (XO (XO (XO (XO XH))))))))
                   then (match expand fuel' r with
                         | Some t -> Some (b :: t)
                         | None -> None)
                   else (match word_of b with
                         | Some w ->
                           (match expand fuel' r with
                            | Some t -> Some (app w t)
                            | None -> None)
                         | None -> None))
              | _ ->
                if Z.ltb b (Zpos (XO (XO (XO (XO (XO (XO (XO XH))))))))
                then (match expand fuel' r with
                      | Some t -> Some (b :: t)
                      | None -> None)
                else (match word_of b with
                      | Some w ->
                        (match expand fuel' r with
                         | Some t -> Some (app w t)
                         | None -> None)
                      | None -> None))
           | XH ->
             if Z.ltb b (Zpos (XO (XO (XO (XO (XO (XO (XO XH))))))))
             then (match expand fuel' r with
                   | Some t -> Some (b :: t)
                   | None -> None)
             else (match word_of b with
                   | Some w ->
                     (match expand fuel' r with
                      | Some t -> Some (app w t)
                      | None -> None)
                   | None -> None))
        | _ ->
          if Z.ltb b (Zpos (XO (XO (XO (XO (XO (XO (XO XH))))))))
          then (match expand fuel' r with
                | Some t -> Some (b :: t)
                | None -> None)
          else (match word_of b with
                | Some w ->
                  (match expand fuel' r with
                   | Some t -> Some (app w t)
                   | None -> None)
                | None -> None)))

(** val mo5_base : z **)

let mo5_base =
  Zpos (XO (XO (XI (XO (XO (XI (XO (XI (XI (XO (XI (XO (XO XH)))))))))))))

(** val split_at_zero : z list -> z list -> (z list * z list) option **)

let rec split_at_zero bs acc =
  match bs with
  | [] -> None
  | b :: r ->
    (match b with
     | Z0 -> Some ((rev acc), r)
     | _ -> split_at_zero r (b :: acc))

(** val records : nat -> z -> z list -> (z * z list) list option **)

let rec records fuel addr bs =
  match fuel with
  | O -> None
  | S fuel' ->
    (match bs with
     | [] -> None
     | lh :: l ->
       (match lh with
        | Z0 ->
          (match l with
           | [] -> None
           | ll :: l0 ->
             (match ll with
              | Z0 ->
                (match l0 with
                 | [] -> Some []
                 | nh :: l1 ->
                   (match l1 with
                    | [] -> None
                    | nl :: r ->
                      (match split_at_zero r [] with
                       | Some p ->
                         let (text, rest) = p in
                         let next =
                           Z.add (Z.add addr (zlen text)) (Zpos (XI (XO XH)))
                         in
                         if Z.eqb
                              (Z.add
                                (Z.mul lh (Zpos (XO (XO (XO (XO (XO (XO (XO
                                  (XO XH)))))))))) ll)
                              (Z.modulo next (Zpos (XO (XO (XO (XO (XO (XO
                                (XO (XO (XO (XO (XO (XO (XO (XO (XO (XO
                                XH))))))))))))))))))
                         then (match records fuel' next rest with
                               | Some recs ->
                                 Some
                                   (((Z.add
                                       (Z.mul nh (Zpos (XO (XO (XO (XO (XO
                                         (XO (XO (XO XH)))))))))) nl),
                                   text) :: recs)
                               | None -> None)
                         else None
                       | None -> None)))
              | _ ->
                (match l0 with
                 | [] -> None
                 | nh :: l1 ->
                   (match l1 with
                    | [] -> None
                    | nl :: r ->
                      (match split_at_zero r [] with
                       | Some p ->
                         let (text, rest) = p in
                         let next =
                           Z.add (Z.add addr (zlen text)) (Zpos (XI (XO XH)))
                         in
                         if Z.eqb
                              (Z.add
                                (Z.mul lh (Zpos (XO (XO (XO (XO (XO (XO (XO
                                  (XO XH)))))))))) ll)
                              (Z.modulo next (Zpos (XO (XO (XO (XO (XO (XO
                                (XO (XO (XO (XO (XO (XO (XO (XO (XO (XO
                                XH))))))))))))))))))
                         then (match records fuel' next rest with
                               | Some recs ->
                                 Some
                                   (((Z.add
                                       (Z.mul nh (Zpos (XO (XO (XO (XO (XO
                                         (XO (XO (XO XH)))))))))) nl),
                                   text) :: recs)
                               | None -> None)
                         else None
                       | None -> None)))))
        | _ ->
          (match l with
           | [] -> None
           | ll :: l0 ->
             (match l0 with
              | [] -> None
              | nh :: l1 ->
                (match l1 with
                 | [] -> None
                 | nl :: r ->
                   (match split_at_zero r [] with
                    | Some p ->
                      let (text, rest) = p in
                      let next =
                        Z.add (Z.add addr (zlen text)) (Zpos (XI (XO XH)))
                      in
                      if Z.eqb
                           (Z.add
                             (Z.mul lh (Zpos (XO (XO (XO (XO (XO (XO (XO (XO
                               XH)))))))))) ll)
                           (Z.modulo next (Zpos (XO (XO (XO (XO (XO (XO (XO
                             (XO (XO (XO (XO (XO (XO (XO (XO (XO
                             XH))))))))))))))))))
                      then (match records fuel' next rest with
                            | Some recs ->
                              Some
                                (((Z.add
                                    (Z.mul nh (Zpos (XO (XO (XO (XO (XO (XO
                                      (XO (XO XH)))))))))) nl), text) :: recs)
                            | None -> None)
                      else None
                    | None -> None))))))

(** val program_records : z list -> (z * z list) list option **)

let program_records img = match img with
| [] -> None
| z0 :: l ->
  (match z0 with
   | Zpos p ->
     (match p with
      | XI p0 ->
        (match p0 with
         | XI p1 ->
           (match p1 with
            | XI p2 ->
              (match p2 with
               | XI p3 ->
                 (match p3 with
                  | XI p4 ->
                    (match p4 with
                     | XI p5 ->
                       (match p5 with
                        | XI p6 ->
                          (match p6 with
                           | XH ->
                             (match l with
                              | [] -> None
                              | lh :: l0 ->
                                (match l0 with
                                 | [] -> None
                                 | ll :: body ->
                                   if (&&)
                                        (Z.eqb
                                          (Z.add
                                            (Z.mul lh (Zpos (XO (XO (XO (XO
                                              (XO (XO (XO (XO XH)))))))))) ll)
                                          (Z.modulo (zlen body) (Zpos (XO (XO
                                            (XO (XO (XO (XO (XO (XO (XO (XO
                                            (XO (XO (XO (XO (XO (XO
                                            XH))))))))))))))))))) (bytesb img)
                                   then records (S (length body)) mo5_base
                                          body
                                   else None))
                           | _ -> None)
                        | _ -> None)
                     | _ -> None)
                  | _ -> None)
               | _ -> None)
            | _ -> None)
         | _ -> None)
      | _ -> None)
   | _ -> None)

(** val expand_all : (z * z list) list -> (z * z list) list option **)

let rec expand_all = function
| [] -> Some []
| p :: r ->
  let (n0, bs) = p in
  (match expand (S (length bs)) bs with
   | Some t ->
     (match expand_all r with
      | Some rs -> Some ((n0, t) :: rs)
      | None -> None)
   | None -> None)

(** val detok : z list -> (z * z list) list option **)

let detok img =
  match program_records img with
  | Some recs -> expand_all recs
  | None -> None

(** val upper_outside_strings : bool -> z list -> z list **)

let rec upper_outside_strings in_lit = function
| [] -> []
| c :: r ->
  if Z.eqb c (Zpos (XO (XI (XO (XO (XO XH))))))
  then c :: (upper_outside_strings (negb in_lit) r)
  else (if in_lit then c else upper_char c) :: (upper_outside_strings in_lit
                                                 r)

(** val line_number : z list -> z **)

let line_number l =
  undec (take_digits l)

(** val line_text : z list -> z list **)

let line_text l =
  let r = skipn (length (take_digits l)) l in
  let r0 =
    match rev r with
    | [] -> r
    | z0 :: t ->
      (match z0 with
       | Zpos p ->
         (match p with
          | XO p0 ->
            (match p0 with
             | XI p1 ->
               (match p1 with
                | XO p2 -> (match p2 with
                            | XH -> rev t
                            | _ -> r)
                | _ -> r)
             | _ -> r)
          | _ -> r)
       | _ -> r)
  in
  (match r0 with
   | [] -> r0
   | z0 :: t ->
     (match z0 with
      | Zpos p ->
        (match p with
         | XO p0 ->
           (match p0 with
            | XO p1 ->
              (match p1 with
               | XO p2 ->
                 (match p2 with
                  | XO p3 ->
                    (match p3 with
                     | XO p4 -> (match p4 with
                                 | XH -> t
                                 | _ -> r0)
                     | _ -> r0)
                  | _ -> r0)
               | _ -> r0)
            | _ -> r0)
         | _ -> r0)
      | _ -> r0))

type lexeme =
| LKeyword of z list
| LText of z list
| LString of z list * bool
| LDelim of z

(** val lex_source : lexeme -> z list **)

let lex_source = function
| LKeyword w -> w
| LText s -> s
| LString (s, closed) ->
  app ((Zpos (XO (XI (XO (XO (XO XH)))))) :: [])
    (app s (if closed then (Zpos (XO (XI (XO (XO (XO XH)))))) :: [] else []))
| LDelim c -> c :: []

(** val lex_encode : lexeme -> z list **)

let lex_encode = function
| LKeyword w ->
  (match code_of (upper_ascii w) with
   | Some v -> word_bytes (upper_ascii w) v
   | None -> [])
| LText s -> upper_ascii s
| LString (s, closed) ->
  app ((Zpos (XO (XI (XO (XO (XO XH)))))) :: [])
    (app s (if closed then (Zpos (XO (XI (XO (XO (XO XH)))))) :: [] else []))
| LDelim c ->
  (match code_of (c :: []) with
   | Some v -> code_bytes v
   | None -> c :: [])

(** val ref_encode : lexeme list -> z list **)

let ref_encode lx =
  flat_map lex_encode lx

(** val ref_source : lexeme list -> z list **)

let ref_source lx =
  flat_map lex_source lx
