#!/bin/sh
# dev helper: build Model/Spec, extract to /tmp/ext and build the binary there
cd "$(dirname "$0")" && ./mk.sh $(grep -o 'Require Import [^.]*' Extract/Extract.v | sed 's/Require Import //' | tr ' ' '\n' | while read m; do for d in Py Gen Model Spec; do [ -f $d/$m.v ] && echo $d/$m.vo; done; done) 2>&1 | grep -v '^COQ' | head -20
mkdir -p /tmp/ext && cd /tmp/ext && rm -f *.ml* && coqc -Q /verif/coq/Py "" -Q /verif/coq/Gen "" -Q /verif/coq/Model "" -Q /verif/coq/Spec "" /verif/coq/Extract/Extract.v && cp /verif/ocaml/driver.ml . && ocamlfind ocamlopt -O2 -w -a model.mli model.ml driver.ml -o moto_model 2>&1 | tail -5
