
val negb : bool -> bool

type nat =
| O
| S of nat

val fst : ('a1 * 'a2) -> 'a1

val snd : ('a1 * 'a2) -> 'a2

val length : 'a1 list -> nat

val app : 'a1 list -> 'a1 list -> 'a1 list

type comparison =
| Eq
| Lt
| Gt

val compOpp : comparison -> comparison

val add : nat -> nat -> nat

val sub : nat -> nat -> nat

type positive =
| XI of positive
| XO of positive
| XH

type n =
| N0
| Npos of positive

type z =
| Z0
| Zpos of positive
| Zneg of positive

module Nat :
 sig
  val leb : nat -> nat -> bool

  val max : nat -> nat -> nat
 end

module Pos :
 sig
  val succ : positive -> positive

  val add : positive -> positive -> positive

  val add_carry : positive -> positive -> positive

  val pred_double : positive -> positive

  val pred_N : positive -> n

  val mul : positive -> positive -> positive

  val iter : ('a1 -> 'a1) -> 'a1 -> positive -> 'a1

  val div2 : positive -> positive

  val div2_up : positive -> positive

  val size : positive -> positive

  val compare_cont : comparison -> positive -> positive -> comparison

  val compare : positive -> positive -> comparison

  val eqb : positive -> positive -> bool

  val coq_Nsucc_double : n -> n

  val coq_Ndouble : n -> n

  val coq_lor : positive -> positive -> positive

  val coq_land : positive -> positive -> n

  val ldiff : positive -> positive -> n

  val iter_op : ('a1 -> 'a1 -> 'a1) -> positive -> 'a1 -> 'a1

  val to_nat : positive -> nat

  val of_succ_nat : nat -> positive
 end

module N :
 sig
  val succ_pos : n -> positive

  val coq_lor : n -> n -> n

  val ldiff : n -> n -> n
 end

module Z :
 sig
  val double : z -> z

  val succ_double : z -> z

  val pred_double : z -> z

  val pos_sub : positive -> positive -> z

  val add : z -> z -> z

  val opp : z -> z

  val sub : z -> z -> z

  val mul : z -> z -> z

  val compare : z -> z -> comparison

  val leb : z -> z -> bool

  val ltb : z -> z -> bool

  val eqb : z -> z -> bool

  val to_nat : z -> nat

  val of_nat : nat -> z

  val of_N : n -> z

  val pos_div_eucl : positive -> z -> z * z

  val div_eucl : z -> z -> z * z

  val div : z -> z -> z

  val modulo : z -> z -> z

  val div2 : z -> z

  val log2 : z -> z

  val shiftl : z -> z -> z

  val shiftr : z -> z -> z

  val coq_land : z -> z -> z
 end

val nth : nat -> 'a1 list -> 'a1 -> 'a1

val nth_error : 'a1 list -> nat -> 'a1 option

val removelast : 'a1 list -> 'a1 list

val rev : 'a1 list -> 'a1 list

val concat : 'a1 list list -> 'a1 list

val map : ('a1 -> 'a2) -> 'a1 list -> 'a2 list

val flat_map : ('a1 -> 'a2 list) -> 'a1 list -> 'a2 list

val fold_left : ('a1 -> 'a2 -> 'a1) -> 'a2 list -> 'a1 -> 'a1

val fold_right : ('a2 -> 'a1 -> 'a1) -> 'a1 -> 'a2 list -> 'a1

val existsb : ('a1 -> bool) -> 'a1 list -> bool

val forallb : ('a1 -> bool) -> 'a1 list -> bool

val filter : ('a1 -> bool) -> 'a1 list -> 'a1 list

val firstn : nat -> 'a1 list -> 'a1 list

val skipn : nat -> 'a1 list -> 'a1 list

val repeat : 'a1 -> nat -> 'a1 list

val byteb : z -> bool

val bytesb : z list -> bool

val zlen : 'a1 list -> z

type err =
| EValue
| EIndex
| EType
| EOverflow
| EUnicode
| ENoEnt
| EOther

type 'a res =
| Ok of 'a
| Err of err

val bind : 'a1 res -> ('a1 -> 'a2 res) -> 'a2 res

val slice : nat -> nat -> 'a1 list -> 'a1 list

val splice : nat -> nat -> 'a1 list -> 'a1 list -> 'a1 list

val drop_last : nat -> 'a1 list -> 'a1 list

val last_n : nat -> 'a1 list -> 'a1 list

val zeqb_list : z list -> z list -> bool

val starts_with : z list -> z list -> bool

val find_from : z list -> z list -> nat -> nat option

val find_sub : z list -> z list -> nat -> nat option

val rfind_aux : z -> z list -> nat -> nat option -> nat option

val rfind_char : z -> z list -> nat option

val upper_char : z -> z

val upper_ascii : z list -> z list

val is_digit : z -> bool

val is_digit19 : z -> bool

val is_space_py : z -> bool

val lstrip_by : (z -> bool) -> z list -> z list

val rstrip_by : (z -> bool) -> z list -> z list

val strip_by : (z -> bool) -> z list -> z list

val rstrip_nl : z list -> z list

val rstrip_py : z list -> z list

val strip_py : z list -> z list

val dec_fuel : nat -> z -> z list

val dec_fuel_of : z -> nat

val dec_nonneg : z -> z list

val dec : z -> z list

val undec : z list -> z

val take_digits : z list -> z list

val ljust : z -> z list -> z list

val readlines_univ_aux : z list -> z list -> nat -> z list list

val readlines_file : z list -> z list list

val readlines_lf_aux : z list -> z list -> z list list

val readlines_stdin : z list -> z list list

val after_last_slash : z list -> nat

val basename : z list -> z list

val dirname : z list -> z list

val ends_with_slash : z list -> bool

val path_join : z list -> z list -> z list

type fsmap = (z list * z list) list

val fs_read : fsmap -> z list -> z list option

val nl_rstrip_arg : z list

val nl_default_increment : z

val nl_default_start : z

val nl_default_width : z

val nl_next_numbered : z -> z -> z

val nl_next_unnumbered : z -> z -> z

val nl_pad_test : z list -> z -> bool

val nl_pad_count : z list -> z -> z

val nl_separator : z list

val prettier_rstrip_arg : z list

val prettier_toggle : z -> z list -> z

val prettier_toggle_test : z list -> bool

val prettier_upper_test : z -> bool

val in_set : z list -> z -> bool

val nl_match : z list -> z list option

val nl_step : z -> z -> z -> z list -> z list * z

val nl_lines : z -> z -> z -> z list list -> z list list

val read_input : (bool * z list) -> z list list

val nl_run : z -> z -> z -> (bool * z list) list -> z list list

val split_groups : z list -> z list -> z list list

val prettier_groups : z -> z list list -> z list

val prettier_line : z list -> z list

val prettier_run : (bool * z list) list -> z list list

val pretty_spec : bool -> z list -> z list

val begins_numbered : z list -> bool

val leading_number : z list -> z

val nl_spec : z -> z -> z -> z option -> z list list -> z list list

val chomp : z list -> z list

val sync_read : z list

val sync_write : z list

val tape_default_size : z

val block_type_LEADER : z

val block_type_DATA : z

val block_type_EOF : z

val wb_next1 : z -> z

val wb_guard1 : z -> z -> bool

val wb_next2 : z -> z list -> z

val wb_guard2 : z -> z -> bool

val nb_after_sync : z -> z

val nb_bound_test : z -> z -> bool

val nb_len_index : z -> z

val nb_block_end : z -> z -> z

val checksum : z list -> z

val bb_eof : z -> z list

val bb_header : z -> z list -> z list

val bb_trailer : z list -> z list

val body_lo : z

val body_hi_from_end : z

val block_type_index : z

val ld_name_lo : z

val ld_name_hi : z

val ld_ext_lo : z

val ld_ext_hi : z

val ld_type_index : z

val ld_mode_of : z -> z -> z

val ld_mode_hi_index : z

val ld_mode_lo_index : z

val ld_payload_size : z

val ttb_name_lo : z

val ttb_name_hi : z

val ttb_name_cut_lo : z

val ttb_name_cut_hi : z

val ttb_name_pad : z list

val ttb_ext_lo : z

val ttb_ext_hi : z

val ttb_ext_cut_lo : z

val ttb_ext_cut_hi : z

val ttb_ext_pad : z list

val ttb_type_index : z

val ttb_type_value : z -> z -> z

val ttb_mode_hi_index : z

val ttb_mode_hi_value : z -> z -> z

val ttb_mode_lo_index : z

val ttb_mode_lo_value : z -> z -> z

val ttb_block_type : z

val inj_default_type : z

val inj_default_mode : z

val inj_dispatch : z list -> ((z list * z) * z) * bool

val inj_name_limit : z

val inj_next_pos : z -> z -> z

val inj_overflow_status : z

val inj_overflow_message : z list

val ext_sep_from : z list

val ext_sep_to : z

val zslice : z -> z -> z list -> z list

val zsplice : z -> z -> z list -> z list -> z list

val znth : z -> z list -> z option

type tape = { t_raw : z list; t_pos : z; t_max : z }

val tape_of_bytes : z list -> tape

val blank_tape : tape

val next_block : tape -> z list option * tape

val write_block : tape -> z list -> tape res

val build_block : z -> z list option -> z list

val block_body : z list -> z list

type btype =
| BLeader
| BData
| BEof

val block_type : z list -> btype res

type leader = { l_name : z list; l_ext : z list; l_type : z; l_mode : z }

val decode_ascii : z list -> z list res

val leader_of_block : z list -> leader res

val leader_payload : leader -> z list

val leader_block : leader -> z list

type lst = { ls_idx : z; ls_cur : leader option option;
             ls_counts : ((z * z) * z) option }

val lst0 : lst

val on_begin : lst -> leader -> lst

val on_data : lst -> z list -> lst res

val s_basic : z list

val s_data : z list

val s_binary : z list

val s_ascii : z list

val s_token : z list

val s_octets : z list

val s_blocks : z list

val file_label : leader -> z list

val safe_label : leader -> z list

val render_entry : bool -> leader -> z -> z -> z -> z list

val on_end : bool -> lst -> (z list * lst) res

type effect =
| WriteFile of z list * z list
| MkDir of z list

type outcome = { o_status : z; o_lines : z list list;
                 o_effects : effect list; o_crash : err option }

val enumerate_loop :
  nat -> bool -> tape -> lst -> z list list -> (z list list * err option)
  option

val fuel_of : z list -> nat

val finish : ((z list list * effect list) * err option) option -> outcome

val tar_list : bool -> z list -> outcome

val extract_loop :
  nat -> bool -> z list -> tape -> lst -> leader option -> z list option -> z
  list list -> effect list -> ((z list list * effect list) * err option)
  option

val tar_extract : bool -> z list option -> z list -> z list -> outcome

val source_fields : z list -> leader * z list

val write_data : nat -> tape -> lst -> z list -> z -> (tape * lst) res

val inject_one :
  bool -> fsmap -> tape -> lst -> z list -> ((tape * lst) * z list) res

val inject_loop :
  bool -> fsmap -> tape -> lst -> z list list -> z list list -> z list
  list * tape res

val tar_create : bool -> fsmap -> z list -> z list list -> outcome

type k7_file = { k_name : z list; k_ext : z list; k_kind : z; k_mode : 
                 z; k_chunks : z list list }

val sum_bytes : z list -> z

val ck_ok : z list -> z -> bool

val ck_of : z list -> z

val k7_marker : z list

val k7_block : z -> z list -> z list

val k7_leader_payload : k7_file -> z list

val k7_end_block : z list

val k7_file_image : k7_file -> z list

val k7_encoded_size : k7_file list -> z

val strict_prefix : z list

val parse_block : z list -> ((z * z list) * z list) option

val parse_data : nat -> z list -> z list list -> (z list list * z list) option

val parse_file : z list -> (k7_file * z list) option

val parse_files : nat -> z list -> k7_file list -> k7_file list option

val k7_decode : z list -> k7_file list option

val doc_kind_mode : z list -> (z list * z) * z

val pad_field : nat -> z list -> z list

val chunks_of : nat -> nat -> z list -> z list list

val doc_split : z list -> z list * z list

val doc_entry : z list -> z list -> k7_file

val doc_path : z list -> z list

val basic_tokens : (z list * z) list

val require_colon : z list list

val special_chars : z list

val program_base : z

val conv_u16 : z -> z list

val tok_u8 : z -> z list

val tok_u16 : z -> z list

val bytes_from_uint : z -> z list

val colon_byte : z

val ptr_step : z -> z list -> z

val prog_marker : z list

val line_end : z list

val prog_end : z list

val ascii_eol : z list

val ascii_keep : z -> bool

val b2l_eol : bool -> z list

val b2l_is_sep : z -> bool

val b2l_flush_test : z -> bool

val lookup : z list -> (z list * z) list -> z option

val tok_of : z list -> z option

val needs_colon : z list -> bool

val utf8_char : z -> z list

val utf8 : z list -> z list

type tctx = { t_done : z list; t_cand : z list; t_src : z list;
              t_bucket : z list }

val tctx0 : tctx

val commit : tctx -> tctx

val token_bytes : z list -> z -> z list

val append_plain : tctx -> z list -> z -> tctx

val append_token : tctx -> z -> tctx

val append_literal : tctx -> z -> tctx

val is_special : z -> bool

val is_one_char_token : z -> bool

val parse_char : (tctx * bool) -> z -> tctx * bool

val parse_line : z list -> z list

val extract_line_parts : z list -> (z * z list) res

val convert_lines : z list list -> z -> z list -> z list res

val tokenize_program : z list list -> z list res

val ascii_line : z list -> z list

val lst_to_ascii : z list list -> z list

val b2l_loop : bool -> z list -> z -> z list

val ascii_to_lst : bool -> z list -> z list

val mo5_vocabulary : (z list * z) list

val vocab_code : z list -> (z list * z) list -> z option

val vocab_word : z -> (z list * z) list -> z list option

val code_of : z list -> z option

val word_of : z -> z list option

val u16 : z -> z list

val code_bytes : z -> z list

val else_word : z list

val word_bytes : z list -> z -> z list

val expand : nat -> z list -> z list option

val mo5_base : z

val split_at_zero : z list -> z list -> (z list * z list) option

val records : nat -> z -> z list -> (z * z list) list option

val program_records : z list -> (z * z list) list option

val expand_all : (z * z list) list -> (z * z list) list option

val detok : z list -> (z * z list) list option

val upper_outside_strings : bool -> z list -> z list

val line_number : z list -> z

val line_text : z list -> z list

type lexeme =
| LKeyword of z list
| LText of z list
| LString of z list * bool
| LDelim of z

val lex_source : lexeme -> z list

val lex_encode : lexeme -> z list

val ref_encode : lexeme list -> z list

val ref_source : lexeme list -> z list
