(* Model/Text.v — executable model of moto_nl and moto_prettier (definitions only).
   Every constant and leaf expression comes from Gen/GenText.v (regenerated from
   /repo/src/moto_nl/nl.py and /repo/src/moto_prettier/prettier.py on every run). *)
Require Import PyBase GenText.
Open Scope Z_scope.

(* ---------------- moto_nl ---------------- *)
Definition in_set (s : list Z) (c : Z) : bool := existsb (Z.eqb c) s.

(* re.search(nl_regex, line) for the regex frozen in GenFacts.nl_regex_is (start of line, group 1 = a digit 1-9 then digits, then anything to the end): this function implements THAT regex (GenFacts
   checks that the source still uses it).  Group 1 is the maximal digit run; '.'
   does not match a newline and '$' matches only at the end or before a final one. *)
Definition nl_match (line : list Z) : option (list Z) :=
  match line with
  | c :: r => if is_digit19 c && negb (existsb (Z.eqb 10) (removelast line))
              then Some (c :: take_digits r) else None
  | [] => None
  end.

Definition nl_step (inc width n : Z) (raw : list Z) : list Z * Z :=
  let line := rstrip_by (in_set nl_rstrip_arg) raw in
  match nl_match line with
  | Some ds => (line, nl_next_numbered (undec ds) inc)
  | None =>
    let padded := dec n in
    let padded := if nl_pad_test padded width
                  then padded ++ repeat 32 (Z.to_nat (nl_pad_count padded width)) else padded in
    (padded ++ nl_separator ++ line, nl_next_unnumbered n inc)
  end.

Fixpoint nl_lines (inc width n : Z) (raws : list (list Z)) : list (list Z) :=
  match raws with
  | [] => []
  | r :: rs => let '(o, n') := nl_step inc width n r in o :: nl_lines inc width n' rs
  end.

(* one input = (is_stdin, decoded text) *)
Definition read_input (i : bool * list Z) : list (list Z) :=
  if fst i then readlines_stdin (snd i) else readlines_file (snd i).
Definition nl_run (start inc width : Z) (inputs : list (bool * list Z)) : list (list Z) :=
  nl_lines inc width start (flat_map read_input inputs).

(* ---------------- moto_prettier ---------------- *)
(* re.split(prettier_regex, line) for the regex frozen in GenFacts: alternates runs of double quotes (possibly empty) and
   single non-quote characters; this function implements THAT regex. *)
Fixpoint split_groups (l cur : list Z) : list (list Z) :=
  match l with
  | [] => [rev cur]
  | c :: r => if c =? 34 then split_groups r (c :: cur)
              else rev cur :: [c] :: split_groups r []
  end.

Fixpoint prettier_groups (depth : Z) (gs : list (list Z)) : list Z :=
  match gs with
  | [] => []
  | g :: r =>
    let depth' := if prettier_toggle_test g then prettier_toggle depth g else depth in
    (if prettier_upper_test depth' then upper_ascii g else g) ++ prettier_groups depth' r
  end.

Definition prettier_line (raw : list Z) : list Z :=
  prettier_groups 0 (split_groups (rstrip_by (in_set prettier_rstrip_arg) raw) []).

Definition prettier_run (inputs : list (bool * list Z)) : list (list Z) :=
  map prettier_line (flat_map read_input inputs).
