(* Model/Tape.v — executable model of moto_lib.fs_tape and of the three moto_tar workers.
   Definitions only.  Every constant and leaf expression comes from Gen/GenTape.v. *)
Require Import PyBase GenTape.
Open Scope Z_scope.

Definition zslice (i j : Z) (l : list Z) : list Z := slice (Z.to_nat i) (Z.to_nat j) l.
Definition zsplice (i j : Z) (v l : list Z) : list Z := splice (Z.to_nat i) (Z.to_nat j) v l.
Definition znth (i : Z) (l : list Z) : option Z := if i <? 0 then None else nth_error l (Z.to_nat i).

(* ---------------- Tape ---------------- *)
Record tape := mkTape { t_raw : list Z; t_pos : Z; t_max : Z }.
Definition tape_of_bytes (raw : list Z) : tape := mkTape raw 0 (zlen raw).
Definition blank_tape : tape := tape_of_bytes (repeat 0 (Z.to_nat tape_default_size)).

(* Tape.nextBlock *)
Definition next_block (t : tape) : option (list Z) * tape :=
  match find_sub sync_read (t_raw t) (Z.to_nat (t_pos t)) with
  | None => (None, mkTape (t_raw t) (t_max t) (t_max t))
  | Some p =>
    let position := nb_after_sync (Z.of_nat p) in
    if nb_bound_test position (t_max t) then
      match znth (nb_len_index position) (t_raw t) with
      | Some length =>
        let blockEnd := nb_block_end position length in
        (Some (zslice position blockEnd (t_raw t)), mkTape (t_raw t) blockEnd (t_max t))
      | None => (None, mkTape (t_raw t) position (t_max t))   (* unreachable under the bound test *)
      end
    else (None, mkTape (t_raw t) position (t_max t))
  end.

(* Tape.writeBlock: Err EOverflow = OverflowError *)
Definition write_block (t : tape) (blockRaw : list Z) : res tape :=
  let position := t_pos t in
  let nextPosition := wb_next1 position in
  if wb_guard1 nextPosition (t_max t) then Err EOverflow else
  let raw1 := zsplice position nextPosition sync_write (t_raw t) in
  let position := nextPosition in
  let nextPosition := wb_next2 position blockRaw in
  if wb_guard2 nextPosition (t_max t) then Err EOverflow else
  Ok (mkTape (zsplice position nextPosition blockRaw raw1) nextPosition (t_max t)).

(* ---------------- TapeBlock ---------------- *)
Definition build_block (ty : Z) (data : option (list Z)) : list Z :=
  match data with
  | None => bb_eof ty
  | Some d => bb_header ty d ++ d ++ bb_trailer d
  end.
(* rawData[2:-1] *)
Definition block_body (raw : list Z) : list Z :=
  slice (Z.to_nat body_lo) (length raw - Z.to_nat body_hi_from_end) raw.
(* TypeOfTapeBlock(rawData[0]): ValueError for any other value, IndexError if empty *)
Inductive btype := BLeader | BData | BEof.
Definition block_type (raw : list Z) : res btype :=
  match znth block_type_index raw with
  | None => Err EIndex
  | Some b => if b =? block_type_LEADER then Ok BLeader
              else if b =? block_type_DATA then Ok BData
              else if b =? block_type_EOF then Ok BEof else Err EValue
  end.

(* ---------------- LeaderTapeBlockDescriptor ---------------- *)
Record leader := mkLeader { l_name : list Z; l_ext : list Z; l_type : Z; l_mode : Z }.

(* bytes.decode("utf-8") is modelled on 7-bit bytes only; anything else is EUnicode here
   (the harness treats that outcome as unmodelled, not as a crash of the tool) *)
Definition decode_ascii (b : list Z) : res (list Z) :=
  if forallb (fun c => (0 <=? c) && (c <? 128)) b then Ok b else Err EUnicode.

Definition leader_of_block (raw : list Z) : res leader :=
  bind (decode_ascii (zslice ld_name_lo ld_name_hi raw)) (fun name =>
  bind (decode_ascii (zslice ld_ext_lo ld_ext_hi raw)) (fun ext =>
  match znth ld_type_index raw, znth ld_mode_hi_index raw, znth ld_mode_lo_index raw with
  | Some ty, Some hi, Some lo => Ok (mkLeader (strip_py name) (strip_py ext) ty (ld_mode_of hi lo))
  | _, _, _ => Err EIndex
  end)).

(* toTapeBlock; names are ASCII so str.encode is the identity on code points *)
Definition leader_payload (l : leader) : list Z :=
  let data := repeat 0 (Z.to_nat ld_payload_size) in
  let data := zsplice ttb_name_lo ttb_name_hi
                (zslice ttb_name_cut_lo ttb_name_cut_hi (upper_ascii (l_name l) ++ ttb_name_pad)) data in
  let data := zsplice ttb_ext_lo ttb_ext_hi
                (zslice ttb_ext_cut_lo ttb_ext_cut_hi (upper_ascii (l_ext l) ++ ttb_ext_pad)) data in
  let data := zsplice ttb_type_index (ttb_type_index + 1) [ttb_type_value (l_type l) (l_mode l)] data in
  let data := zsplice ttb_mode_hi_index (ttb_mode_hi_index + 1) [ttb_mode_hi_value (l_type l) (l_mode l)] data in
  zsplice ttb_mode_lo_index (ttb_mode_lo_index + 1) [ttb_mode_lo_value (l_type l) (l_mode l)] data.
Definition leader_block (l : leader) : list Z := build_block ttb_block_type (Some (leader_payload l)).

(* ---------------- listeners ---------------- *)
(* Python attributes that may not exist yet: cur = None <-> attribute currentFile never set,
   Some None <-> set to None; counts = None <-> blockCount/fileSize/firstBlock never set *)
Record lst := mkLst { ls_idx : Z; ls_cur : option (option leader); ls_counts : option (Z * Z * Z) }.
Definition lst0 : lst := mkLst 0 None None.

Definition on_begin (s : lst) (d : leader) : lst :=
  let idx := ls_idx s + 1 in mkLst idx (Some (Some d)) (Some (0, 0, idx)).
Definition on_data (s : lst) (blockRaw : list Z) : res lst :=
  match ls_counts s with
  | None => Err EOther                                   (* AttributeError *)
  | Some (bc, fs, fb) => Ok (mkLst (ls_idx s + 1) (ls_cur s) (Some (bc + 1, fs + zlen (block_body blockRaw), fb)))
  end.

Definition s_basic : list Z := [66;65;83;73;67].
Definition s_data : list Z := [68;65;84;65].
Definition s_binary : list Z := [66;73;78;65;82;89].
Definition s_ascii : list Z := [65;83;67;73;73].
Definition s_token : list Z := [84;79;75;69;78].
Definition s_octets : list Z := [32;111;99;116;101;116;115].      (* " octets" *)
Definition s_blocks : list Z := [32;98;108;111;99;107;115;46].    (* " blocks." *)

Definition file_label (d : leader) : list Z := l_name d ++ [46] ++ l_ext d.
(* the extractor's file name: path separators inside the catalogue name are replaced *)
Definition safe_label (d : leader) : list Z :=
  map (fun c => if zeqb_list [c] ext_sep_from then ext_sep_to else c) (file_label d).
Definition render_entry (verbose : bool) (d : leader) (bc fs fb : Z) : list Z :=
  if verbose then
    let ftype := if l_type d =? 0 then s_basic else if l_type d =? 1 then s_data else s_binary in
    let fmode := if l_type d =? 0 then (if l_mode d =? 65535 then s_ascii else s_token) else dec (l_mode d) in
    file_label d ++ [9] ++ ftype ++ [9] ++ fmode ++ [9;35] ++ dec fb ++ [9] ++ dec fs ++ s_octets ++ [9] ++ dec bc ++ s_blocks
  else file_label d.

(* onEndBlock: prints, then currentFile = None *)
Definition on_end (verbose : bool) (s : lst) : res (list Z * lst) :=
  match ls_cur s, ls_counts s with
  | Some (Some d), Some (bc, fs, fb) =>
    Ok (render_entry verbose d bc fs fb, mkLst (ls_idx s + 1) (Some None) (ls_counts s))
  | _, _ => Err EOther                                   (* AttributeError on None / missing attribute *)
  end.

(* ---------------- outcome of a CLI action ---------------- *)
Record outcome := mkOutcome { o_status : Z; o_lines : list (list Z); o_effects : list effect;
                              o_crash : option err }.

(* ---------------- enumerator ---------------- *)
(* the while loop over tape.nextBlock(); fuel = an upper bound on the number of iterations,
   None when exhausted (never, for fuel > len raw: Props/C18) *)
Fixpoint enumerate_loop (fuel : nat) (verbose : bool) (t : tape) (s : lst) (acc : list (list Z))
  : option (list (list Z) * option err) :=
  match fuel with
  | O => None
  | S fuel' =>
    match next_block t with
    | (None, _) => Some (rev acc, None)
    | (Some b, t') =>
      match block_type b with
      | Err e => Some (rev acc, Some e)
      | Ok BLeader =>
        match leader_of_block b with
        | Err e => Some (rev acc, Some e)
        | Ok d => enumerate_loop fuel' verbose t' (on_begin s d) acc
        end
      | Ok BEof =>
        match on_end verbose s with
        | Err e => Some (rev acc, Some e)
        | Ok (line, s') => enumerate_loop fuel' verbose t' s' (line :: acc)
        end
      | Ok BData =>
        match on_data s b with
        | Err e => Some (rev acc, Some e)
        | Ok s' => enumerate_loop fuel' verbose t' s' acc
        end
      end
    end
  end.

Definition fuel_of (raw : list Z) : nat := S (length raw).

Definition finish (r : option (list (list Z) * list effect * option err)) : outcome :=
  match r with
  | None => mkOutcome (-1) [] [] (Some EOther)     (* out of fuel: excluded by C18_tape_terminates *)
  | Some (ls, fx, None) => mkOutcome 0 ls fx None
  | Some (ls, fx, Some e) => mkOutcome 1 ls fx (Some e)
  end.

Definition tar_list (verbose : bool) (raw : list Z) : outcome :=
  finish (match enumerate_loop (fuel_of raw) verbose (tape_of_bytes raw) lst0 [] with
          | None => None | Some (ls, e) => Some (ls, [], e) end).

(* ---------------- extractor ---------------- *)
(* desc / fileContent are Python locals: unbound until the first leader *)
Fixpoint extract_loop (fuel : nat) (verbose : bool) (target : list Z) (t : tape) (s : lst)
  (desc : option leader) (content : option (list Z)) (acc : list (list Z)) (fx : list effect)
  : option (list (list Z) * list effect * option err) :=
  match fuel with
  | O => None
  | S fuel' =>
    match next_block t with
    | (None, _) => Some (rev acc, rev fx, None)
    | (Some b, t') =>
      match block_type b with
      | Err e => Some (rev acc, rev fx, Some e)
      | Ok BLeader =>
        match leader_of_block b with
        | Err e => Some (rev acc, rev fx, Some e)
        | Ok d => extract_loop fuel' verbose target t' (on_begin s d) (Some d) (Some []) acc fx
        end
      | Ok BEof =>
        match desc, content with
        | Some d, Some c =>
          if existsb (Z.eqb 0) (path_join target (safe_label d)) then Some (rev acc, rev fx, Some EValue)  (* open(): embedded null byte *)
          else
          let fx' := WriteFile (path_join target (safe_label d)) c :: fx in
          match on_end verbose s with
          | Err e => Some (rev acc, rev fx', Some e)
          | Ok (line, s') => extract_loop fuel' verbose target t' s' desc content (line :: acc) fx'
          end
        | _, _ => Some (rev acc, rev fx, Some EOther)        (* UnboundLocalError *)
        end
      | Ok BData =>
        match on_data s b with
        | Err e => Some (rev acc, rev fx, Some e)
        | Ok s' =>
          match content with
          | Some c => extract_loop fuel' verbose target t' s' desc (Some (c ++ block_body b)) acc fx
          | None => Some (rev acc, rev fx, Some EOther)
          end
        end
      end
    end
  end.

(* targetDir = args.into (created, exist_ok) if given, else dirname(archive) *)
Definition tar_extract (verbose : bool) (into : option (list Z)) (archive : list Z) (raw : list Z) : outcome :=
  let target := match into with Some d => d | None => dirname archive end in
  let pre := match into with Some d => [MkDir d] | None => [] end in
  finish (extract_loop (fuel_of raw) verbose target (tape_of_bytes raw) lst0 None None [] (rev pre)).

(* ---------------- injector ---------------- *)
(* catalogue fields and the path actually opened, for one source argument *)
Definition source_fields (src : list Z) : leader * list Z :=
  let base := basename src in
  match rfind_char 46 base with
  | None => (mkLeader (upper_ascii base) [] inj_default_type inj_default_mode, src)
  | Some dot =>
    let name := upper_ascii (firstn dot base) in
    let name := if inj_name_limit <? zlen name then firstn (Z.to_nat inj_name_limit) name else name in
    let '(ext, ty, mode, strip) := inj_dispatch (upper_ascii (skipn (S dot) base)) in
    (mkLeader name ext ty mode, if strip then drop_last 2 src else src)
  end.

(* data blocks: the while loop over dataPos; fuel = len data + 1 *)
Fixpoint write_data (fuel : nat) (t : tape) (s : lst) (data : list Z) (dataPos : Z) : res (tape * lst) :=
  match fuel with
  | O => Err EOther
  | S fuel' =>
    let dataMax := zlen data in
    if dataPos <? dataMax then
      let dataNextPos := inj_next_pos dataPos (dataMax - dataPos) in
      let block := build_block block_type_DATA (Some (zslice dataPos dataNextPos data)) in
      bind (write_block t block) (fun t' =>
      bind (on_data s block) (fun s' =>
      write_data fuel' t' s' data dataNextPos))
    else Ok (t, s)
  end.

Definition inject_one (verbose : bool) (fs : fsmap) (t : tape) (s : lst) (src : list Z)
  : res (tape * lst * list Z) :=
  let '(d, path) := source_fields src in
  bind (write_block t (leader_block d)) (fun t1 =>
  let s1 := on_begin s d in
  match fs_read fs path with
  | None => Err ENoEnt
  | Some data =>
    bind (write_data (S (length data)) t1 s1 data 0) (fun '(t2, s2) =>
    bind (write_block t2 (build_block block_type_EOF None)) (fun t3 =>
    bind (on_end verbose s2) (fun '(line, s3) => Ok (t3, s3, line))))
  end).

Fixpoint inject_loop (verbose : bool) (fs : fsmap) (t : tape) (s : lst) (srcs : list (list Z))
  (acc : list (list Z)) : list (list Z) * res tape :=
  match srcs with
  | [] => (rev acc, Ok t)
  | src :: rest =>
    match inject_one verbose fs t s src with
    | Err e => (rev acc, Err e)
    | Ok (t', s', line) => inject_loop verbose fs t' s' rest (line :: acc)
    end
  end.

Definition tar_create (verbose : bool) (fs : fsmap) (archive : list Z) (srcs : list (list Z)) : outcome :=
  match inject_loop verbose fs blank_tape lst0 srcs [] with
  | (ls, Ok t) => mkOutcome 0 ls [WriteFile archive (t_raw t)] None
  | (ls, Err EOverflow) => mkOutcome inj_overflow_status (ls ++ [inj_overflow_message]) [] None
  | (ls, Err e) => mkOutcome 1 ls [] (Some e)
  end.
