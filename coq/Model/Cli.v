(* Model/Cli.v — the argument-parsing decisions of the tools and the order in which their run()
   methods act on them.  argparse is MODELLED here (not verified), and only on canonical command
   lines: every token is an exact option flag (followed by its value for options taking one),
   the separator "--", -h/--help, or a positional; all positionals form one contiguous group
   (possibly around "--").  Anything else is reported as PUnmodelled and skipped by the harness. *)
From Coq Require Import String.
Require Import PyBase CliTypes GenCli GenTape Tape GenDisk Disk.
Open Scope Z_scope.

Definition dash : Z := 45.
Definition is_option_like (t : list Z) : bool := match t with c :: _ :: _ => c =? dash | _ => false end.
Definition tok_eq := zeqb_list.
Definition is_sep (t : list Z) : bool := tok_eq t [dash; dash].
Definition is_help (t : list Z) : bool := tok_eq t [dash; 104] || tok_eq t (str "--help"%string).

Fixpoint find_opt (t : list Z) (opts : list optspec) : option optspec :=
  match opts with
  | [] => None
  | o :: r => if existsb (tok_eq t) (o_flags o) then Some o else find_opt t r
  end.

Record pstate := mkP {
  p_values : list (list Z * list Z);      (* dest -> value, latest first *)
  p_group : option (list (list Z));       (* flags of the group member seen *)
  p_pos : list (list Z);                  (* positionals, in order *)
  p_pos_closed : bool;                    (* an option came after the positional group *)
  p_unknown : bool }.
Definition p0 : pstate := mkP [] None [] false false.

Inductive presult :=
| PHelp                                    (* usage printed, exit 0 *)
| PError                                   (* usage + message on stderr, exit 2 *)
| PUnmodelled
| POk (values : list (list Z * list Z)) (positionals : list (list Z)).

(* tokens after "--" are positionals *)
Definition add_pos (s : pstate) (ts : list (list Z)) : option pstate :=
  match ts with
  | [] => Some s
  | _ => if p_pos_closed s then None
         else Some (mkP (p_values s) (p_group s) (p_pos s ++ ts) false (p_unknown s))
  end.
Definition close_pos (s : pstate) : pstate :=
  match p_pos s with
  | [] => s
  | _ => mkP (p_values s) (p_group s) (p_pos s) true (p_unknown s)
  end.

Definition finish (spec : clispec) (s : pstate) : presult :=
  let need := length (filter (fun p => negb (snd p)) (c_positionals spec)) in
  let star := existsb snd (c_positionals spec) in
  if p_unknown s then PError
  else if Nat.ltb (length (p_pos s)) need then PError
  else if negb star && Nat.ltb need (length (p_pos s)) then PError
  else if c_group_required spec && match p_group s with None => true | Some _ => false end then PError
  else POk (p_values s) (p_pos s).

Fixpoint parse_loop (spec : clispec) (ts : list (list Z)) (s : pstate) : presult :=
  match ts with
  | [] => finish spec s
  | t :: r =>
    if is_sep t then match add_pos s r with Some s' => finish spec s' | None => PUnmodelled end
    else if is_help t then PHelp
    else if is_option_like t then
      match find_opt t (c_opts spec) with
      | None =>
        (* clustered short options, --opt=value and abbreviations are outside the canonical form *)
        if existsb (Z.eqb 61) t then PUnmodelled
        else match t with
             | _ :: c :: _ :: _ => if c =? dash then parse_loop spec r (mkP (p_values (close_pos s)) (p_group s) (p_pos s) (p_pos_closed (close_pos s)) true)
                                   else PUnmodelled
             | _ => parse_loop spec r (mkP (p_values (close_pos s)) (p_group s) (p_pos s) (p_pos_closed (close_pos s)) true)
             end
      | Some o =>
        let s1 := close_pos s in
        let conflict := o_in_group o && match p_group s1 with Some fl => negb (zeqb_list (concat fl) (concat (o_flags o))) | None => false end in
        if conflict then PError
        else
          let g := if o_in_group o then Some (o_flags o) else p_group s1 in
          match o_kind o with
          | OConst d v => parse_loop spec r (mkP ((d, v) :: p_values s1) g (p_pos s1) (p_pos_closed s1) (p_unknown s1))
          | OTrue d => parse_loop spec r (mkP ((d, str "True"%string) :: p_values s1) g (p_pos s1) (p_pos_closed s1) (p_unknown s1))
          | OStore d is_int =>
            match r with
            | [] => PError
            | v :: r' =>
              if is_option_like v || is_sep v then PUnmodelled
              else if is_int && negb (forallb is_digit v && match v with [] => false | _ => true end) then
                (if forallb is_digit (skipn 1 v) then PUnmodelled else PError)
              else parse_loop spec r' (mkP ((d, v) :: p_values s1) g (p_pos s1) (p_pos_closed s1) (p_unknown s1))
            end
          end
      end
    else match add_pos s [t] with Some s' => parse_loop spec r s' | None => PUnmodelled end
  end.
Definition parse (spec : clispec) (argv : list (list Z)) : presult := parse_loop spec argv p0.

Fixpoint value_of (d : list Z) (vs : list (list Z * list Z)) : option (list Z) :=
  match vs with [] => None | (k, v) :: r => if zeqb_list k d then Some v else value_of d r end.

(* ---------------- what run() does with the parsed arguments ---------------- *)
Inductive cli_outcome :=
| CHelp | CUsageError | CUnmodelled
| CCrash (e : err)                         (* traceback, status 1, nothing written *)
| CTape (o : Tape.outcome)
| CDisk (o : doutcome).

Definition is_true (v : option (list Z)) : bool := match v with Some _ => true | None => false end.

(* moto_tar: no extension gate; the image manager for list/extract reads the archive *)
Definition tar_main (argv : list (list Z)) (fs : fsmap) : cli_outcome :=
  match parse tar_cli argv with
  | PHelp => CHelp | PError => CUsageError | PUnmodelled => CUnmodelled
  | POk vs (archive :: sources) =>
    let v := is_true (value_of (str "verbose"%string) vs) in
    match value_of (str "action"%string) vs with
    | Some a =>
      if zeqb_list a (str "create"%string) then CTape (tar_create v fs archive sources)
      else match fs_read fs archive with
           | None => CCrash ENoEnt
           | Some raw =>
             if zeqb_list a (str "list"%string) then CTape (tar_list v raw)
             else if zeqb_list a (str "extract"%string) then CTape (tar_extract v (value_of (str "into"%string) vs) archive raw)
             else CCrash EOther
           end
    | None => CUsageError
    end
  | POk _ [] => CUsageError
  end.

(* the disk tools: the archive's extension is checked before anything is read or written *)
Definition extension_of (p : list Z) : option (list Z) :=
  match rfind_char 46 p with Some d => Some (skipn (S d) p) | None => None end.
Definition lower_char (c : Z) : Z := if (65 <=? c) && (c <=? 90) then c + 32 else c.

Definition disk_main (is_fd : bool) (argv : list (list Z)) (fs : fsmap) : cli_outcome :=
  match parse disk_cli argv with
  | PHelp => CHelp | PError => CUsageError | PUnmodelled => CUnmodelled
  | POk vs (archive :: sources) =>
    let v := is_true (value_of (str "verbose"%string) vs) in
    match value_of (str "action"%string) vs with
    | None => CUsageError
    | Some a =>
      match extension_of archive with
      | None => CCrash EValue
      | Some e =>
        if negb (zeqb_list (map lower_char e) (if is_fd then str "fd"%string else str "sd"%string)) then CCrash EValue
        else if zeqb_list a (str "create"%string) then CDisk (disk_create is_fd v fs archive sources)
        else match fs_read fs archive with
             | None => CCrash ENoEnt
             | Some raw =>
               if zeqb_list a (str "add"%string) then CDisk (disk_add is_fd v fs archive raw sources)
               else if zeqb_list a (str "list"%string) then CDisk (disk_list is_fd v raw)
               else if zeqb_list a (str "extract"%string) then CDisk (disk_extract is_fd v (value_of (str "into"%string) vs) archive raw)
               else CCrash EOther
             end
      end
    end
  | POk _ [] => CUsageError
  end.

Definition cli_status (o : cli_outcome) : Z :=
  match o with
  | CHelp => 0 | CUsageError => 2 | CUnmodelled => -1 | CCrash _ => 1
  | CTape t => Tape.o_status t | CDisk d => d_status d
  end.
Definition cli_effects (o : cli_outcome) : list effect :=
  match o with CTape t => Tape.o_effects t | CDisk d => d_effects d | _ => [] end.
