(* Model/Disk.v — executable model of moto_lib.fs_disk: image, allocation table, catalogue,
   FileSystemController, the three workers, the two listeners.  Definitions only; constants and
   leaf expressions come from Gen/GenDisk.v. *)
From Coq Require Import String Ascii.
Require Import PyBase GenDisk.
Open Scope Z_scope.

(* a str literal as code points *)
Definition str (x : string) : list Z := map (fun a => Z.of_N (N_of_ascii a)) (list_ascii_of_string x).

(* ---------------- geometry ---------------- *)
(* a sector is its 256-byte payload; the SDDrive padding is re-created on save (DiskSector keeps
   payload and padding in one buffer, but nothing ever writes the padding) *)
Definition sector := list Z.
Definition side := list sector.       (* flat: index = track * 16 + sector *)
Definition image := list side.

Definition sectors_per_side : nat := Z.to_nat (tracks_per_side * sectors_per_track).
Definition sec_at (track sector : Z) : nat := Z.to_nat (track * sectors_per_track + sector).
Definition get_sec (sd : side) (i : nat) : sector := nth i sd [].
Definition set_sec (sd : side) (i : nat) (v : sector) : side :=
  if Nat.ltb i (length sd) then firstn i sd ++ [v] ++ skipn (S i) sd else sd.

(* DiskSector.dataOfPayload = value *)
Definition set_payload (old : sector) (value : list Z) : sector :=
  let n := Z.to_nat (setter_copy_len (zlen value)) in
  splice 0 n (firstn n value) old.

Definition blank_sector : sector := repeat filler_payload (Z.to_nat size_of_payload).
Definition blank_side : side := repeat blank_sector sectors_per_side.

Fixpoint chunks {A} (n k : nat) (l : list A) : list (list A) :=
  match k with O => [] | S k' => firstn n l :: chunks n k' (skipn n l) end.

Definition load_side (is_fd : bool) (raw : list Z) : side :=
  map (firstn (Z.to_nat size_of_payload)) (chunks (Z.to_nat (size_of_sector is_fd)) sectors_per_side raw).

(* DiskImage(rawData): ValueError on a bad size *)
Definition load_image (is_fd : bool) (raw : list Z) : res image :=
  match raw with
  | [] => Ok (repeat blank_side (Z.to_nat (if is_fd then blank_sides_fd 4 else 4)))
  | _ =>
    let sz := size_of_side is_fd in
    let n := load_number_of_sides (zlen raw) sz in
    if (if is_fd then load_reject_fd n else load_reject_sd n) then Err EValue
    else if load_reject_partial n (zlen raw) sz then Err EValue
    else Ok (map (load_side is_fd) (chunks (Z.to_nat sz) (Z.to_nat n) raw))
  end.

Definition save_sector (is_fd : bool) (s : sector) : list Z :=
  if is_fd then s else s ++ repeat filler_sddrive (Z.to_nat (size_of_sector false - size_of_payload)).
Definition save_image (is_fd : bool) (img : image) : list Z :=
  flat_map (fun sd => flat_map (save_sector is_fd) sd) img.

(* ---------------- allocation table ---------------- *)
Definition bat_index : nat := sec_at bat_track bat_sector.
(* the _bat getter: BlockAllocation(...) raises ValueError on an invalid status *)
Definition bat_get (sd : side) : res (list Z) :=
  let st := slice (Z.to_nat bat_first_index) (Z.to_nat bat_end_index) (get_sec sd bat_index) in
  if forallb is_valid_status st then Ok st else Err EValue.
(* the _bat setter: statuses written over bytes 1.., the rest of the sector kept *)
Definition bat_set (sd : side) (bat : list Z) : side :=
  let p := get_sec sd bat_index in
  set_sec sd bat_index (set_payload p (splice 1 (S (length bat)) bat p)).

Definition status_of (bat : list Z) (b : Z) : option Z := if b <? 0 then None else nth_error bat (Z.to_nat b).

(* CatalogEntryUsage.fromBlockAllocationTable: the chain walk.  Fuel = number of loop turns. *)
Fixpoint walk (fuel : nat) (bat : list Z) (st : Z) (blocks : list Z) : option (list Z) :=
  match fuel with
  | O => None
  | S fuel' =>
    if ba_is_last st then Some blocks
    else match status_of bat st with
         | None => Some blocks              (* cannot happen: a valid non-free non-last status is < 160 *)
         | Some st' =>
           if ba_is_free st' || ba_is_reserved st' || existsb (Z.eqb st) blocks then Some blocks
           else walk fuel' bat st' (blocks ++ [st])
         end
  end.
Definition walk_fuel : nat := 162.
(* -> blocks; IndexError when firstBlock is outside the table *)
Definition chain_of (bat : list Z) (first : Z) : res (list Z) :=
  match status_of bat first with
  | None => Err EIndex
  | Some st =>
    if ba_is_free st || ba_is_reserved st then Ok []
    else match walk walk_fuel bat st [first] with
         | Some bs => Ok bs
         | None => Err EOther             (* out of fuel: excluded by Props/C18 *)
         end
  end.

(* ---------------- catalogue entries ---------------- *)
Record centry := mkEntry {
  ce_status : Z;            (* entry_NEVER_USED / entry_ALIVE / entry_DELETED *)
  ce_data : list Z;         (* the 16 record bytes as CatalogEntryRecord keeps them *)
  ce_blocks : list Z;
  ce_last_sector : Z;
  ce_last_status : Z        (* status of the last block of the chain (255 when there is none) *)
}.

Definition znth0 (i : Z) (l : list Z) : Z := nth (Z.to_nat i) l 0.
Definition dslice (i j : Z) (l : list Z) : list Z := slice (Z.to_nat i) (Z.to_nat j) l.

Definition sanitize (data : list Z) : list Z :=
  let n := Z.to_nat rec_sanitized_count in
  map (fun b => if rec_is_invalid_char b then invalid_char else b) (firstn n data) ++ skipn n data.

Definition kind_of_byte (b : Z) : Z := if (0 <=? b) && (b <? kind_count) then b else kind_fallback.

(* CatalogEntryRecord(name=..., extension=..., ...) from the 32 entry bytes *)
Definition record_of_bytes (data : list Z) : list Z :=
  let kind := kind_of_byte (znth0 rec_kind_index data) in
  let dflag := data_to_byte (if data_from_byte_is_ascii (znth0 rec_data_index data) then 1 else 0) in
  let first := znth0 rec_first_index data in
  let last := rec_last_of (znth0 rec_last_hi_index data) (znth0 rec_last_lo_index data) in
  sanitize (dslice rec_name_lo rec_name_hi data ++ dslice rec_ext_lo rec_ext_hi data
            ++ [rec_byte11 kind dflag first last; rec_byte12 kind dflag first last; rec_byte13 kind dflag first last;
                rec_byte14 kind dflag first last; rec_byte15 kind dflag first last]).

Definition last_status (bat : list Z) (blocks : list Z) : Z :=
  match rev blocks with b :: _ => match status_of bat b with Some s => s | None => 255 end | [] => 255 end.

(* CatalogEntry.fromBytes *)
Definition entry_of_bytes (data : list Z) (bat : list Z) : res centry :=
  let st := entry_status_of (znth0 0 data) in
  if st =? entry_NEVER_USED then Ok (mkEntry st [] [] 0 255)
  else
    let first := znth0 rec_first_index data in
    let last := rec_last_of (znth0 rec_last_hi_index data) (znth0 rec_last_lo_index data) in
    bind (chain_of bat first) (fun blocks =>
    Ok (mkEntry st (record_of_bytes data) blocks last (last_status bat blocks))).

Definition cat_sectors : list nat :=
  map (fun k => sec_at bat_track (cat_first_sector + Z.of_nat k)) (seq 0 (Z.to_nat (cat_end_sector - cat_first_sector))).
Definition entry_offsets : list nat :=
  map (fun k => Z.to_nat (cat_entry_first + Z.of_nat k * cat_entry_size))
      (seq 0 (Z.to_nat ((cat_entry_end - cat_entry_first) / cat_entry_size))).
Definition entry_size : nat := Z.to_nat cat_entry_size.

Fixpoint collect {A} (l : list (res A)) : res (list A) :=
  match l with
  | [] => Ok []
  | Err e :: _ => Err e
  | Ok a :: r => match collect r with Ok rs => Ok (a :: rs) | Err e => Err e end
  end.

(* every entry slot of the catalogue, in order *)
Definition all_entries (sd : side) (bat : list Z) : res (list centry) :=
  collect (flat_map (fun s => map (fun off => entry_of_bytes (slice off (off + entry_size) (get_sec sd s)) bat) entry_offsets) cat_sectors).

(* FileSystemController.listFiles() with its defaults: the alive entries *)
Definition list_files (sd : side) : res (list centry) :=
  bind (bat_get sd) (fun bat =>
  bind (all_entries sd bat) (fun es => Ok (filter (fun e => ce_status e =? entry_ALIVE) es))).

(* CatalogEntry.toDict *)
Definition entry_name (e : centry) : list Z := firstn 8 (ce_data e).
Definition entry_ext (e : centry) : list Z := firstn 3 (skipn 8 (ce_data e)).
Definition entry_kind (e : centry) : Z := nth 11 (ce_data e) 0.
Definition entry_is_ascii (e : centry) : bool := data_from_byte_is_ascii (nth 12 (ce_data e) 0).
Definition entry_size_blocks (e : centry) : Z := zlen (ce_blocks e).
Definition entry_size_bytes (e : centry) : Z :=
  size_in_bytes (zlen (ce_blocks e)) (ba_usage (ce_last_status e)) (ce_last_sector e).
(* bytes.decode("ascii") of the name fields: UnicodeDecodeError above 7F *)
Definition entry_decodable (e : centry) : bool := forallb (fun c => c <? 128) (entry_name e ++ entry_ext e).

Definition sec_of_block (b j : Z) : nat := sec_at (track_of_block b) (first_sector_of_block b + j).

(* FileSystemController.readFile *)
Fixpoint read_sectors (sd : side) (b : Z) (smax lastsize : Z) (s : nat) (n : nat) (result : list Z) (index : Z)
  : list Z * Z :=
  match n with
  | O => (result, index)
  | S n' =>
    let sec := get_sec sd (sec_of_block b (Z.of_nat s)) in
    let take := if Z.of_nat s =? smax - 1 then lastsize else read_full_payload in
    let result' := splice (Z.to_nat index) (Z.to_nat (index + take)) (firstn (Z.to_nat take) sec) result in
    read_sectors sd b smax lastsize (S s) n' result' (index + take)
  end.
Fixpoint read_blocks (sd : side) (blocks : list Z) (last_usage last_sector : Z) (result : list Z) (index : Z) : list Z :=
  match blocks with
  | [] => result
  | b :: r =>
    let '(smax, lastsize) := match r with [] => (last_usage, last_sector) | _ => (read_full_sectors, read_full_payload) end in
    let '(result', index') := read_sectors sd b smax lastsize 0 (Z.to_nat smax) result index in
    read_blocks sd r last_usage last_sector result' index'
  end.
Definition read_file (sd : side) (e : centry) : res (list Z) :=
  if negb (ce_status e =? entry_ALIVE) then Ok []
  else if negb (entry_decodable e) then Err EUnicode
  else match ce_blocks e with
       | [] => Ok []
       | _ =>
         let lbu := usage_of_last_block (ce_last_status e) in
         if lbu =? 0 then Err EValue
         else Ok (read_blocks sd (ce_blocks e) lbu (ce_last_sector e) (repeat 0 (Z.to_nat (entry_size_bytes e))) 0)
       end.

(* computeUsage *)
Definition usage_of (bat : list Z) : Z * Z * Z :=   (* used, reserved, free *)
  fold_left (fun '(u, r, f) st => if ba_is_free st then (u, r, f + 1) else if ba_is_reserved st then (u, r + 1, f) else (u + 1, r, f)) bat (0, 0, 0).
Definition compute_usage (sd : side) : res (Z * Z * Z) := bind (bat_get sd) (fun bat => Ok (usage_of bat)).

(* initFileSystem *)
Definition init_fs (sd : side) : side :=
  let bat := map (fun i => if existsb (Z.eqb (Z.of_nat i)) reserved_blocks then status_RESERVED else status_FREE) (seq 0 160) in
  let sd := set_sec sd bat_index (set_payload (get_sec sd bat_index) (repeat 0 256)) in
  let sd := bat_set sd bat in
  fold_left (fun sd s => set_sec sd s (set_payload (get_sec sd s) (repeat init_catalog_filler 256))) cat_sectors sd.

(* ---------------- FileSystemController.writeFile ---------------- *)
Fixpoint free_blocks (bat : list Z) (i : Z) : list Z :=
  match bat with
  | [] => []
  | st :: r => if ba_is_free st then i :: free_blocks r (i + 1) else free_blocks r (i + 1)
  end.
Fixpoint set_status (bat : list Z) (b : nat) (v : Z) : list Z :=
  match bat, b with
  | [], _ => []
  | _ :: r, O => v :: r
  | x :: r, S b' => x :: set_status r b' v
  end.

(* the slice loop; [alloc] = batBlocks ids; returns side, table *)
Fixpoint write_slices (fuel : nat) (sd : side) (bat : list Z) (alloc : list Z) (content : list Z)
  (usage_last_block : Z) (cur_block : nat) (cur_sector : Z) (idx : Z) (len : Z) : res (side * list Z) :=
  match fuel with
  | O => Ok (sd, bat)
  | S fuel' =>
    if idx <? Z.max len 1 then
      match nth_error alloc cur_block with
      | None => Err EIndex
      | Some b =>
        let last_index := Z.of_nat (length alloc) - 1 in
        let bat' :=
          if cur_sector =? 0 then
            (if last_index <=? Z.of_nat cur_block then set_status bat (Z.to_nat b) (last_status_of usage_last_block)
             else match nth_error alloc (S cur_block) with
                  | Some nb => set_status bat (Z.to_nat b) nb
                  | None => bat
                  end)
          else bat in
        let si := sec_of_block b cur_sector in
        let sd' := set_sec sd si (set_payload (get_sec sd si) (dslice idx (idx + slice_step) content)) in
        let cur_block' := if cur_sector =? last_sector_of_block then S cur_block else cur_block in
        write_slices fuel' sd' bat' alloc content usage_last_block cur_block' ((cur_sector + 1) mod sectors_per_block) (idx + slice_step) len
      end
    else Ok (sd, bat)
  end.

(* str.encode("ascii") padded / cut: _bytesFromStr; UnicodeEncodeError (a ValueError) above 7F *)
Definition bytes_from_str (s : list Z) (size : Z) : res (list Z) :=
  if forallb (fun c => (0 <=? c) && (c <? 128)) s then
    Ok (if size <=? zlen s then firstn (Z.to_nat size) s else s ++ repeat padding_char (Z.to_nat (size - zlen s)))
  else Err EValue.

Definition new_record (name ext : list Z) (kind dtype first last : Z) : res (list Z) :=
  bind (bytes_from_str (upper_ascii name) size_of_entry_name) (fun n =>
  bind (bytes_from_str (upper_ascii ext) size_of_entry_extension) (fun x =>
  let dflag := data_to_byte dtype in
  Ok (sanitize (n ++ x ++ [rec_byte11 kind dflag first last; rec_byte12 kind dflag first last; rec_byte13 kind dflag first last;
                           rec_byte14 kind dflag first last; rec_byte15 kind dflag first last]) ++ padding_of_record))).

(* first slot whose entry is NEVER_USED or DELETED; entries are parsed (chains walked) on the way *)
Fixpoint find_slot (sd : side) (bat : list Z) (slots : list (nat * nat)) : res (option (nat * nat)) :=
  match slots with
  | [] => Ok None
  | (s, off) :: r =>
    match entry_of_bytes (slice off (off + entry_size) (get_sec sd s)) bat with
    | Err e => Err e
    | Ok en => if (ce_status en =? entry_NEVER_USED) || (ce_status en =? entry_DELETED) then Ok (Some (s, off))
               else find_slot sd bat r
    end
  end.
Definition all_slots : list (nat * nat) := flat_map (fun s => map (fun off => (s, off)) entry_offsets) cat_sectors.

(* returns the side in every case: a refusal (Err EValue) may have changed free-block payloads *)
Definition write_file (sd : side) (content name ext : list Z) (kind dtype : Z) : side * res unit :=
  match bat_get sd with
  | Err e => (sd, Err e)
  | Ok bat =>
    let len := zlen content in
    let '(sectors0, last_sector0) := compute_required_slots len payload_per_sector in
    let '(sectors, last_sector) := if len =? 0 then (1, 0) else (sectors0, last_sector0) in
    let '(nblocks, last_block) := compute_required_slots sectors sectors_per_block in
    let alloc := firstn (Z.to_nat nblocks) (free_blocks bat 0) in
    if zlen alloc <? nblocks then (sd, Err EValue)
    else
      (* the catalogue record is built (name encoded) before anything is touched *)
      match nth_error alloc 0 with
      | None => (sd, Err EIndex)
      | Some first =>
        match new_record name ext kind dtype first last_sector with
        | Err e => (sd, Err e)
        | Ok rec =>
          match write_slices (S (length content)) sd bat alloc content last_block 0 0 0 len with
          | Err e => (sd, Err e)
          | Ok (sd1, bat1) =>
            let sd2 := bat_set sd1 bat1 in
            match find_slot sd2 bat1 all_slots with
            | Err e => (sd2, Err e)
            | Ok (Some (s, off)) =>
              let cs := get_sec sd2 s in
              (set_sec sd2 s (set_payload cs (splice off (off + entry_size) rec cs)), Ok tt)
            | Ok None =>
              let bat2 := fold_left (fun bt b => set_status bt (Z.to_nat b) status_FREE) alloc bat1 in
              (bat_set sd2 bat2, Err EValue)
            end
          end
        end
      end
  end.

(* ---------------- listeners ---------------- *)
Inductive proc := PListing | PExtracting | PUpdating.
Record dlst := mkL { l_sides : Z; l_files_side : Z; l_files_all : Z; l_blocks_side : Z; l_blocks_all : Z;
                    l_reset : bool; l_need_nl : bool }.
Definition dlst0 : dlst := mkL 0 0 0 0 0 false false.
Definition is_listing (p : proc) : bool := match p with PListing => true | _ => false end.

Definition nl : list Z := [10].
Definition plural (n : Z) : list Z := if n =? 1 then [] else str "s".
Definition ret_line (s : dlst) : list Z * dlst :=
  if l_need_nl s then (nl, mkL (l_sides s) (l_files_side s) (l_files_all s) (l_blocks_side s) (l_blocks_all s) (l_reset s) false)
  else ([], s).
Definition set_need (s : dlst) (b : bool) : dlst :=
  mkL (l_sides s) (l_files_side s) (l_files_all s) (l_blocks_side s) (l_blocks_all s) (l_reset s) b.
(* str.rjust / ljust through format specs *)
Definition rjust (w : Z) (s : list Z) : list Z := repeat 32 (Z.to_nat (w - zlen s)) ++ s.
Definition ljust8 (s : list Z) : list Z := s ++ repeat 32 (Z.to_nat (8 - zlen s)).
(* the one float of the code, {x/total:.1%}: carried as the exact fraction; the harness checks the
   printed tenth of a percent is a correct rounding of it *)
Definition pct (num den : Z) : list Z := str "(%" ++ dec num ++ str "/" ++ dec den ++ str "%)".

Definition on_begin_side (verbose : bool) (p : proc) (s : dlst) (n : Z) : list Z * dlst :=
  let s1 := if l_reset s then dlst0 else s in
  let s2 := mkL (l_sides s1 + 1) 0 (l_files_all s1) 0 (l_blocks_all s1) (l_reset s1) (l_need_nl s) in
  let '(o, s3) := ret_line s2 in
  let sep := if (verbose || negb (is_listing p)) && (1 <? l_sides s3) then str "---" ++ nl else [] in
  (o ++ sep ++ str "Side " ++ dec n ++ nl, s3).

Definition on_end_side (verbose : bool) (p : proc) (s : dlst) (usage : Z * Z * Z) : list Z * dlst :=
  let '(o, s1) := ret_line s in
  let '(used, reserved, free) := usage in
  let nf := l_files_side s1 in
  let files := dec nf ++ str " file" ++ plural nf in
  if verbose then
    let head := if nf =? 0 then str "empty" else files in
    let total_use := reserved + used in
    let total := total_use + free in
    let nb := l_blocks_side s1 in
    let tail :=
      match p with
      | PListing => str ", (" ++ dec reserved ++ str " + " ++ dec used ++ str ") block" ++ plural total ++ str " used " ++ pct total_use total
      | PExtracting => str ", " ++ dec nb ++ str " block" ++ plural nb ++ str " read " ++ pct nb total
      | PUpdating => str ", " ++ dec nb ++ str " block" ++ plural nb ++ str " written " ++ pct nb total
      end in
    (o ++ head ++ tail ++ nl, s1)
  else (o ++ (if is_listing p then [] else files ++ nl), s1).

(* file events carry: status, name, extension, kind string, data string *)
Definition kind_name (k : Z) : list Z :=
  if k =? 0 then str "BASIC" else if k =? 1 then str "DATA" else if k =? 2 then str "MODULE" else str "TEXT".
Definition data_name (k : Z) (ascii : bool) : list Z :=
  if ascii then str "ASCII" else if k =? 0 then str "TOKEN" else str "BINARY".

Definition on_begin_file (verbose : bool) (p : proc) (s : dlst) (status : Z) (name ext : list Z) (kind : Z) (ascii : bool)
  : list Z * dlst :=
  let '(o, s1) := ret_line s in
  let listing := is_listing p in
  let body :=
    if verbose then
      (if status =? entry_NEVER_USED then str "  (unused)" ++ (if listing then [] else repeat 32 22)
       else str "  " ++ name ++ str "." ++ ext ++
            (if status =? entry_DELETED then str " (deleted)" ++ (if listing then [] else repeat 32 8)
             else str "  " ++ ljust8 (kind_name kind) ++ ljust8 (data_name kind ascii)))
      ++ (if listing then [] else str "......")
    else
      (if status =? entry_NEVER_USED then str "  (unused)"
       else str "  " ++ rstrip_py name ++ str "." ++ rstrip_py ext ++ (if status =? entry_DELETED then str " (deleted)" else []))
      ++ (if listing then [] else str "...") in
  (o ++ body, set_need s1 true).

Definition on_end_file (verbose : bool) (p : proc) (s : dlst) (status : Z) (size blocks : Z) : list Z * dlst :=
  let alive := status =? entry_ALIVE in
  let s1 := if alive then mkL (l_sides s) (l_files_side s + 1) (l_files_all s + 1) (l_blocks_side s + blocks) (l_blocks_all s + blocks) (l_reset s) (l_need_nl s)
            else s in
  if verbose then
    if alive then
      (str "  " ++ rjust 6 (dec size) ++ str " Byte" ++ (if size =? 1 then str " " else str "s") ++ str "    "
       ++ rjust 3 (dec blocks) ++ str " block" ++ (if blocks =? 1 then str " " else str "s") ++ nl, set_need s1 false)
    else if is_listing p then ([], s1) else (str "ignored" ++ nl, set_need s1 false)
  else
    if is_listing p then ret_line s1
    else ((if alive then str "ok" else str "ignored") ++ nl, set_need s1 false).

Definition on_message (indent : bool) (s : dlst) (msg : list Z) : list Z * dlst :=
  ((if indent then str "  " else []) ++ msg ++ nl, set_need s false).

Definition on_done (verbose : bool) (p : proc) (s : dlst) : list Z * dlst :=
  let s1 := mkL (l_sides s) (l_files_side s) (l_files_all s) (l_blocks_side s) (l_blocks_all s) true (l_need_nl s) in
  let '(o, s2) := ret_line s1 in
  let body :=
    if negb (is_listing p) && (0 <? l_sides s2) then
      str "---" ++ nl ++ str "TOTAL" ++ nl ++ dec (l_files_all s2) ++ str " file" ++ plural (l_files_all s2) ++
      (if verbose then str ", " ++ dec (l_blocks_all s2) ++ str " block" ++ plural (l_blocks_all s2) ++ str " " ++
                       (match p with PExtracting => str "read" | _ => str "written" end)
       else []) ++ nl
    else [] in
  (o ++ body, s2).

(* ---------------- outcome ---------------- *)
(* the report as data (a ghost of the printed text: nothing else depends on it): which side
   section is open, and for every file event its side, catalogue name, kind, whether it was
   stored/read or refused ('too big'), its size in bytes and the block count reported, and (not
   printed) the bytes concerned *)
Inductive log_item :=
| LSide (n : Z)
| LFile (side : Z) (name ext : list Z) (kind : Z) (ascii : bool) (stored : bool) (size blocks : Z) (content : list Z).

Record doutcome := mkDOutcome { d_status : Z; d_text : list Z; d_effects : list effect; d_crash : option err;
                                d_log : list log_item }.
Definition crashed (text : list Z) (fx : list effect) (e : err) : doutcome := mkDOutcome 1 text fx (Some e) [].

(* ---------------- enumerator / extractor ---------------- *)
Definition side_dir (target : list Z) (i : nat) : list Z := path_join target (str "side" ++ dec (Z.of_nat i)).
Definition extracted_name (e : centry) : list Z :=
  map (fun c => if c =? dex_sep_from then dex_sep_to else c) (rstrip_py (entry_name e) ++ str "." ++ rstrip_py (entry_ext e)).

(* one side of list (extract = false) or extract (true) *)
Fixpoint side_files (verbose extract : bool) (p : proc) (sd : side) (i : nat) (dir : list Z) (es : list centry)
  (s : dlst) (text : list Z) (fx : list effect) (lg : list log_item)
  : list Z * list effect * dlst * list log_item * option err :=
  match es with
  | [] => (text, fx, s, lg, None)
  | e :: r =>
    if negb (entry_decodable e) then (text, fx, s, lg, Some EUnicode)
    else
      let '(o1, s1) := on_begin_file verbose p s (ce_status e) (entry_name e) (entry_ext e) (entry_kind e) (entry_is_ascii e) in
      let text1 := text ++ o1 in
      let item := LFile (Z.of_nat i) (entry_name e) (entry_ext e) (entry_kind e) (entry_is_ascii e) true (entry_size_bytes e) (entry_size_blocks e) in
      if extract then
        match read_file sd e with
        | Err er => (text1, fx, s1, lg, Some er)
        | Ok data =>
          let path := path_join dir (extracted_name e) in
          if existsb (Z.eqb 0) path then (text1, fx, s1, lg, Some EValue)
          else
            let '(o2, s2) := on_end_file verbose p s1 (ce_status e) (entry_size_bytes e) (entry_size_blocks e) in
            side_files verbose extract p sd i dir r s2 (text1 ++ o2) (fx ++ [WriteFile path data]) (lg ++ [item data])
        end
      else
        let '(o2, s2) := on_end_file verbose p s1 (ce_status e) (entry_size_bytes e) (entry_size_blocks e) in
        side_files verbose extract p sd i dir r s2 (text1 ++ o2) fx (lg ++ [item []])
  end.

Fixpoint read_sides (verbose extract : bool) (p : proc) (target : list Z) (sides : list side) (i : nat)
  (s : dlst) (text : list Z) (fx : list effect) (lg : list log_item) : doutcome :=
  match sides with
  | [] => let '(o, _) := on_done verbose p s in mkDOutcome 0 (text ++ o) fx None lg
  | sd :: r =>
    let '(o0, s0) := on_begin_side verbose p s (Z.of_nat i) in
    let text0 := text ++ o0 in
    let dir := side_dir target i in
    let fx0 := if extract then fx ++ [MkDir dir] else fx in
    let lg0 := lg ++ [LSide (Z.of_nat i)] in
    match list_files sd with
    | Err e => crashed text0 fx0 e
    | Ok es =>
      match side_files verbose extract p sd i dir es s0 text0 fx0 lg0 with
      | (text1, fx1, s1, lg1, Some e) => crashed text1 fx1 e
      | (text1, fx1, s1, lg1, None) =>
        match compute_usage sd with
        | Err e => crashed text1 fx1 e
        | Ok u => let '(o2, s2) := on_end_side verbose p s1 u in
                  read_sides verbose extract p target r (S i) s2 (text1 ++ o2) fx1 lg1
        end
      end
    end
  end.

Definition disk_list (is_fd verbose : bool) (raw : list Z) : doutcome :=
  match load_image is_fd raw with
  | Err e => crashed [] [] e
  | Ok img => read_sides verbose false PListing [] img 0 dlst0 [] [] []
  end.
(* targetDir = args.into if given (announced on stdout) else dirname(archive) *)
Definition disk_extract (is_fd verbose : bool) (into : option (list Z)) (archive : list Z) (raw : list Z) : doutcome :=
  match load_image is_fd raw with
  | Err e => crashed [] [] e
  | Ok img =>
    let target := match into with Some d => d | None => dirname archive end in
    let pre := match into with Some d => str "has into : " ++ d ++ nl | None => [] end in
    read_sides verbose true PExtracting target img 0 dlst0 pre [] []
  end.

(* ---------------- injector ---------------- *)
Record istate := mkI { i_img : image; i_cur : nat; i_lst : dlst; i_text : list Z; i_log : list log_item }.
Definition has_controller (st : istate) : bool := Nat.ltb (i_cur st) (Z.to_nat side_count).
Definition cur_side (st : istate) : side := nth (i_cur st) (i_img st) [].
Definition set_cur_side (st : istate) (sd : side) : istate :=
  mkI (firstn (i_cur st) (i_img st) ++ [sd] ++ skipn (S (i_cur st)) (i_img st)) (i_cur st) (i_lst st) (i_text st) (i_log st).
Definition emit (st : istate) (o : list Z * dlst) : istate := mkI (i_img st) (i_cur st) (snd o) (i_text st ++ fst o) (i_log st).
Definition note (st : istate) (x : log_item) : istate := mkI (i_img st) (i_cur st) (i_lst st) (i_text st) (i_log st ++ [x]).
Definition next_side (st : istate) : istate := mkI (i_img st) (S (i_cur st)) (i_lst st) (i_text st) (i_log st).
(* onBeginOfSide for the current side *)
Definition open_side (verbose : bool) (st : istate) : istate :=
  note (emit st (on_begin_side verbose PUpdating (i_lst st) (Z.of_nat (i_cur st)))) (LSide (Z.of_nat (i_cur st))).

(* the retry loop of DiskImageContentInjector.writeFile; fuel = sides + 1 *)
Fixpoint inject_file (fuel : nat) (verbose : bool) (st : istate) (name ext : list Z) (kind dtype : Z) (data : list Z)
  : res istate :=
  match fuel with
  | O => Ok st
  | S fuel' =>
    if negb (has_controller st) then Ok st
    else
      let st1 := emit st (on_begin_file verbose PUpdating (i_lst st) entry_ALIVE name ext kind (dtype =? 1)) in
      match write_file (cur_side st1) data name ext kind dtype with
      | (sd', Ok _) =>
        let st2 := set_cur_side st1 sd' in
        let st3 := emit st2 (on_end_file verbose PUpdating (i_lst st2) entry_ALIVE (zlen data) (inj_reported_blocks (zlen data))) in
        Ok (note st3 (LFile (Z.of_nat (i_cur st)) name ext kind (dtype =? 1) true (zlen data) (inj_reported_blocks (zlen data)) data))
      | (sd', Err EValue) =>
        let st2 := set_cur_side st1 sd' in
        let st3 := note (emit st2 (on_message false (i_lst st2) (str "too big")))
                        (LFile (Z.of_nat (i_cur st)) name ext kind (dtype =? 1) false (zlen data) 0 data) in
        match compute_usage (cur_side st3) with
        | Err e => Err e
        | Ok u =>
          let st4 := emit st3 (on_end_side verbose PUpdating (i_lst st3) u) in
          let st5 := next_side st4 in
          if negb (has_controller st5) then Ok st5
          else inject_file fuel' verbose (open_side verbose st5) name ext kind dtype data
        end
      | (_, Err e) => Err e
      end
  end.

(* name, extension, extension-with-option and the path read, for one source argument *)
Definition split_source (src : list Z) : list Z * list Z * list Z * list Z :=
  let base := basename src in
  let clean := if zeqb_list (upper_ascii (last_n 2 src)) (str ",A") then drop_last 2 src else src in
  match rfind_char 46 base with
  | None => (upper_ascii base, [], [], clean)
  | Some dot =>
    (upper_ascii (firstn dot base), upper_ascii (skipn (S dot) (basename clean)), upper_ascii (skipn (S dot) base), clean)
  end.

Fixpoint lookup_proc (k : list Z) (tbl : list (list Z * (option (list Z) * Z * Z))) : option (option (list Z) * Z * Z) :=
  match tbl with [] => None | (k', v) :: r => if zeqb_list k k' then Some v else lookup_proc k r end.

Definition processor_of (name ext ext_opt : list Z) : option (list Z) * Z * Z :=
  match lookup_proc (name ++ str "." ++ ext) inj_processors with
  | Some v => v
  | None => match lookup_proc ext_opt inj_processors with
            | Some v => v
            | None => (None, fst inj_default_processor, snd inj_default_processor)
            end
  end.

Fixpoint inject_sources (verbose : bool) (fs : fsmap) (st : istate) (srcs : list (list Z)) : res istate :=
  match srcs with
  | [] => Ok st
  | src :: rest =>
    if zeqb_list (upper_ascii (basename src)) eos_marker then
      match compute_usage (cur_side st) with
      | Err e => Err e
      | Ok u =>
        let st1 := emit st (on_end_side verbose PUpdating (i_lst st) u) in
        let st2 := next_side st1 in
        if negb (has_controller st2) then Ok st2
        else inject_sources verbose fs (open_side verbose st2) rest
      end
    else
      let '(name, ext, ext_opt, clean) := split_source src in
      match fs_read fs clean with
      | None => inject_sources verbose fs (emit st (on_message true (i_lst st) (str "-- not found : " ++ src))) rest
      | Some data =>
        if inj_name_max <? zlen name then
          inject_sources verbose fs (emit st (on_message true (i_lst st) (str "-- too long name : " ++ clean))) rest
        else if inj_ext_max <? zlen ext then
          inject_sources verbose fs (emit st (on_message true (i_lst st) (str "-- too long extension : " ++ clean))) rest
        else
          let '(forced, kind, dtype) := processor_of name ext ext_opt in
          let ext' := match forced with Some x => x | None => ext end in
          match inject_file (S (Z.to_nat side_count)) verbose st name ext' kind dtype data with
          | Err e => Err e
          | Ok st1 => if negb (has_controller st1) then Ok st1 else inject_sources verbose fs st1 rest
          end
      end
  end.

(* the tail of perform: end of the current side, then the remaining sides for the report *)
Fixpoint finish_sides (fuel : nat) (verbose : bool) (st : istate) : res istate :=
  match fuel with
  | O => Ok st
  | S fuel' =>
    if Nat.ltb (S (i_cur st)) (Z.to_nat side_count) then
      let st2 := open_side verbose (next_side st) in
      match compute_usage (cur_side st2) with
      | Err e => Err e
      | Ok u => finish_sides fuel' verbose (emit st2 (on_end_side verbose PUpdating (i_lst st2) u))
      end
    else Ok st
  end.

Definition inject_perform (is_fd verbose init : bool) (fs : fsmap) (archive : list Z) (img : image) (srcs : list (list Z)) : doutcome :=
  if Nat.ltb (length img) (Z.to_nat side_count) then crashed [] [] EIndex     (* image.sides[i] for i in range(4) *)
  else
    let img0 := if init then map init_fs (firstn (Z.to_nat side_count) img) ++ skipn (Z.to_nat side_count) img else img in
    let st0 := open_side verbose (mkI img0 0 dlst0 [] []) in
    match inject_sources verbose fs st0 srcs with
    | Err e => crashed (i_text st0) [] e          (* text printed before the crash is not compared *)
    | Ok st1 =>
      let fin :=
        if has_controller st1 then
          match compute_usage (cur_side st1) with
          | Err e => Err e
          | Ok u => finish_sides (Z.to_nat side_count) verbose (emit st1 (on_end_side verbose PUpdating (i_lst st1) u))
          end
        else Ok st1 in
      match fin with
      | Err e => crashed (i_text st1) [] e
      | Ok st2 =>
        let '(o, _) := on_done verbose PUpdating (i_lst st2) in
        mkDOutcome 0 (i_text st2 ++ o) [WriteFile archive (save_image is_fd (i_img st2))] None (i_log st2)
      end
    end.

Definition disk_create (is_fd verbose : bool) (fs : fsmap) (archive : list Z) (srcs : list (list Z)) : doutcome :=
  match load_image is_fd [] with
  | Err e => crashed [] [] e
  | Ok img => inject_perform is_fd verbose true fs archive img srcs
  end.
Definition disk_add (is_fd verbose : bool) (fs : fsmap) (archive : list Z) (raw : list Z) (srcs : list (list Z)) : doutcome :=
  match load_image is_fd raw with
  | Err e => crashed [] [] e
  | Ok img => inject_perform is_fd verbose false fs archive img srcs
  end.
