(* Model/Basic.v — executable model of moto_lib.basic (tokenizer, converters), of moto_lst2bas
   and of moto_bas2lst.  Definitions only; constants and leaf expressions from Gen/GenBasic.v. *)
Require Import PyBase GenBasic.
Open Scope Z_scope.

(* ---------------- lookups in the token table ---------------- *)
Fixpoint lookup (k : list Z) (tbl : list (list Z * Z)) : option Z :=
  match tbl with
  | [] => None
  | (k', v) :: r => if zeqb_list k k' then Some v else lookup k r
  end.
Definition tok_of (k : list Z) : option Z := lookup k basic_tokens.
Definition needs_colon (k : list Z) : bool := existsb (zeqb_list k) require_colon.

(* str.encode('utf-8') of one code point (surrogates never reach here: the text was decoded) *)
Definition utf8_char (c : Z) : list Z :=
  if c <? 128 then [c]
  else if c <? 2048 then [192 + c / 64; 128 + c mod 64]
  else if c <? 65536 then [224 + c / 4096; 128 + (c / 64) mod 64; 128 + c mod 64]
  else [240 + c / 262144; 128 + (c / 4096) mod 64; 128 + (c / 64) mod 64; 128 + c mod 64].
Definition utf8 (s : list Z) : list Z := flat_map utf8_char s.

(* ---------------- TokenizerContext ---------------- *)
Record tctx := mkT { t_done : list Z; t_cand : list Z; t_src : list Z; t_bucket : list Z }.
Definition tctx0 : tctx := mkT [] [] [] [].

Definition commit (t : tctx) : tctx := mkT (t_done t ++ t_cand t ++ utf8 (t_bucket t)) [] [] [].

Definition token_bytes (k : list Z) (v : Z) : list Z :=
  (if needs_colon k then tok_u8 colon_byte else []) ++ bytes_from_uint v.

(* appendAsToken when neither the whole pending sequence nor the bucket is a keyword *)
Definition append_plain (t : tctx) (src' : list Z) (c : Z) : tctx :=
  match tok_of [c] with
  | Some v => let t1 := commit t in
              commit (mkT (t_done t1) (t_cand t1 ++ bytes_from_uint v) (t_src t1) (t_bucket t1))
  | None => mkT (t_done t) (t_cand t) src' (t_bucket t ++ [c])
  end.

(* appendAsToken(c): biggest match on the whole pending sequence replaces the candidate; an early
   match on the bucket is appended to the candidate, committed, and c is handled again from the
   clean state (where neither of the first two branches can apply to a one-character sequence
   unless c itself is a keyword) *)
Definition append_token (t : tctx) (c : Z) : tctx :=
  let src' := t_src t ++ [c] in
  match tok_of src' with
  | Some v => mkT (t_done t) (token_bytes src' v) src' []
  | None =>
    match tok_of (t_bucket t) with
    | Some v =>
      let t1 := commit (mkT (t_done t) (t_cand t ++ token_bytes (t_bucket t) v) src' []) in
      match tok_of [c] with
      | Some v1 => mkT (t_done t1) (token_bytes [c] v1) [c] []
      | None => append_plain (mkT (t_done t1) [] [c] []) [c] c
      end
    | None => append_plain t src' c
    end
  end.

(* appendAsLitteral with the empty literal database *)
Definition append_literal (t : tctx) (c : Z) : tctx :=
  mkT (t_done t) (t_cand t) (t_src t ++ [c]) (t_bucket t ++ [c]).

(* ---------------- parseLine ---------------- *)
Definition is_special (c : Z) : bool := existsb (Z.eqb c) special_chars.
Definition is_one_char_token (c : Z) : bool := match tok_of [c] with Some _ => true | None => false end.

Definition parse_char (st : tctx * bool) (c : Z) : tctx * bool :=
  let '(t, inlit) := st in
  if c =? 34 then
    let t1 := commit t in
    let inlit' := negb inlit in
    (commit (if inlit' then append_literal t1 c else append_token t1 c), inlit')
  else if inlit then (append_literal t c, inlit)
  else if is_special c || is_one_char_token c then (commit (append_token t c), inlit)
  else (append_token t (upper_char c), inlit).

Definition parse_line (text : list Z) : list Z :=
  t_done (commit (fst (fold_left parse_char text (tctx0, false)))).

(* ---------------- extractLineParts ---------------- *)
(* the regex frozen in GenFacts (same as moto_nl's): starts with 1-9, group 1 the digit run,
   no inner newline.  Returns (line number, text) or ValueError. *)
Definition extract_line_parts (line : list Z) : res (Z * list Z) :=
  match line with
  | c :: r =>
    if is_digit19 c && negb (existsb (Z.eqb 10) (removelast line)) then
      let ds := c :: take_digits r in
      let rest := skipn (length ds) line in
      let rest := match rev rest with 10 :: t => rev t | _ => rest end in
      let rest := match rest with 32 :: t => t | _ => rest end in
      Ok (undec ds, rest)
    else Err EValue
  | [] => Err EValue
  end.

(* ---------------- ListingToTokenizedBasicConverter.convert ---------------- *)
Fixpoint convert_lines (lines : list (list Z)) (ptr : Z) (body : list Z) : res (list Z) :=
  match lines with
  | [] => Ok body
  | l :: r =>
    match extract_line_parts l with
    | Err e => Err e
    | Ok (num, text) =>
      let buf := parse_line text ++ line_end in
      let ptr' := ptr_step ptr buf in
      convert_lines r ptr' (body ++ conv_u16 ptr' ++ conv_u16 num ++ buf)
    end
  end.
Definition tokenize_program (lines : list (list Z)) : res (list Z) :=
  match convert_lines lines program_base [] with
  | Err e => Err e
  | Ok body => let body := body ++ prog_end in Ok (prog_marker ++ conv_u16 (zlen body) ++ body)
  end.

(* ---------------- ListingToAsciiBasicConverter.convert ---------------- *)
Definition ascii_line (l : list Z) : list Z := filter ascii_keep (rstrip_py l) ++ ascii_eol.
Definition lst_to_ascii (lines : list (list Z)) : list Z := ascii_eol ++ flat_map ascii_line lines.

(* ---------------- moto_bas2lst, ASCII mode ---------------- *)
Fixpoint b2l_loop (dos : bool) (data : list Z) (n : Z) : list Z :=
  match data with
  | [] => if b2l_flush_test n then b2l_eol dos else []
  | b :: r => if b2l_is_sep b then (if b2l_flush_test n then b2l_eol dos else []) ++ b2l_loop dos r 0
              else b :: b2l_loop dos r (n + 1)
  end.
Definition ascii_to_lst (dos : bool) (data : list Z) : list Z := b2l_loop dos data 0.
